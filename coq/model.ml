
type __ = Obj.t

(** val negb : bool -> bool **)

let negb = function
| true -> false
| false -> true

type nat =
| O
| S of nat

(** val fst : ('a1 * 'a2) -> 'a1 **)

let fst = function
| (x, _) -> x

(** val snd : ('a1 * 'a2) -> 'a2 **)

let snd = function
| (_, y) -> y

(** val length : 'a1 list -> nat **)

let rec length = function
| [] -> O
| _ :: l' -> S (length l')

(** val app : 'a1 list -> 'a1 list -> 'a1 list **)

let rec app l m =
  match l with
  | [] -> m
  | a :: l1 -> a :: (app l1 m)

type comparison =
| Eq
| Lt
| Gt

(** val compOpp : comparison -> comparison **)

let compOpp = function
| Eq -> Eq
| Lt -> Gt
| Gt -> Lt

(** val id : __ -> __ **)

let id x =
  x

module Coq__1 = struct
 (** val add : nat -> nat -> nat **)
 let rec add n0 m =
   match n0 with
   | O -> m
   | S p -> S (add p m)
end
include Coq__1

(** val mul : nat -> nat -> nat **)

let rec mul n0 m =
  match n0 with
  | O -> O
  | S p -> add m (mul p m)

(** val sub : nat -> nat -> nat **)

let rec sub n0 m =
  match n0 with
  | O -> n0
  | S k -> (match m with
            | O -> n0
            | S l -> sub k l)

type positive =
| XI of positive
| XO of positive
| XH

type n =
| N0
| Npos of positive

type z =
| Z0
| Zpos of positive
| Zneg of positive

(** val eqb : bool -> bool -> bool **)

let eqb b1 b2 =
  if b1 then b2 else if b2 then false else true

module Nat =
 struct
  (** val eqb : nat -> nat -> bool **)

  let rec eqb n0 m =
    match n0 with
    | O -> (match m with
            | O -> true
            | S _ -> false)
    | S n' -> (match m with
               | O -> false
               | S m' -> eqb n' m')

  (** val leb : nat -> nat -> bool **)

  let rec leb n0 m =
    match n0 with
    | O -> true
    | S n' -> (match m with
               | O -> false
               | S m' -> leb n' m')

  (** val ltb : nat -> nat -> bool **)

  let ltb n0 m =
    leb (S n0) m
 end

module Pos =
 struct
  type mask =
  | IsNul
  | IsPos of positive
  | IsNeg
 end

module Coq_Pos =
 struct
  (** val succ : positive -> positive **)

  let rec succ = function
  | XI p -> XO (succ p)
  | XO p -> XI p
  | XH -> XO XH

  (** val add : positive -> positive -> positive **)

  let rec add x y =
    match x with
    | XI p ->
      (match y with
       | XI q -> XO (add_carry p q)
       | XO q -> XI (add p q)
       | XH -> XO (succ p))
    | XO p ->
      (match y with
       | XI q -> XI (add p q)
       | XO q -> XO (add p q)
       | XH -> XI p)
    | XH -> (match y with
             | XI q -> XO (succ q)
             | XO q -> XI q
             | XH -> XO XH)

  (** val add_carry : positive -> positive -> positive **)

  and add_carry x y =
    match x with
    | XI p ->
      (match y with
       | XI q -> XI (add_carry p q)
       | XO q -> XO (add_carry p q)
       | XH -> XI (succ p))
    | XO p ->
      (match y with
       | XI q -> XO (add_carry p q)
       | XO q -> XI (add p q)
       | XH -> XO (succ p))
    | XH ->
      (match y with
       | XI q -> XI (succ q)
       | XO q -> XO (succ q)
       | XH -> XI XH)

  (** val pred_double : positive -> positive **)

  let rec pred_double = function
  | XI p -> XI (XO p)
  | XO p -> XI (pred_double p)
  | XH -> XH

  (** val pred_N : positive -> n **)

  let pred_N = function
  | XI p -> Npos (XO p)
  | XO p -> Npos (pred_double p)
  | XH -> N0

  type mask = Pos.mask =
  | IsNul
  | IsPos of positive
  | IsNeg

  (** val succ_double_mask : mask -> mask **)

  let succ_double_mask = function
  | IsNul -> IsPos XH
  | IsPos p -> IsPos (XI p)
  | IsNeg -> IsNeg

  (** val double_mask : mask -> mask **)

  let double_mask = function
  | IsPos p -> IsPos (XO p)
  | x0 -> x0

  (** val double_pred_mask : positive -> mask **)

  let double_pred_mask = function
  | XI p -> IsPos (XO (XO p))
  | XO p -> IsPos (XO (pred_double p))
  | XH -> IsNul

  (** val sub_mask : positive -> positive -> mask **)

  let rec sub_mask x y =
    match x with
    | XI p ->
      (match y with
       | XI q -> double_mask (sub_mask p q)
       | XO q -> succ_double_mask (sub_mask p q)
       | XH -> IsPos (XO p))
    | XO p ->
      (match y with
       | XI q -> succ_double_mask (sub_mask_carry p q)
       | XO q -> double_mask (sub_mask p q)
       | XH -> IsPos (pred_double p))
    | XH -> (match y with
             | XH -> IsNul
             | _ -> IsNeg)

  (** val sub_mask_carry : positive -> positive -> mask **)

  and sub_mask_carry x y =
    match x with
    | XI p ->
      (match y with
       | XI q -> succ_double_mask (sub_mask_carry p q)
       | XO q -> double_mask (sub_mask p q)
       | XH -> IsPos (pred_double p))
    | XO p ->
      (match y with
       | XI q -> double_mask (sub_mask_carry p q)
       | XO q -> succ_double_mask (sub_mask_carry p q)
       | XH -> double_pred_mask p)
    | XH -> IsNeg

  (** val mul : positive -> positive -> positive **)

  let rec mul x y =
    match x with
    | XI p -> add y (XO (mul p y))
    | XO p -> XO (mul p y)
    | XH -> y

  (** val iter : ('a1 -> 'a1) -> 'a1 -> positive -> 'a1 **)

  let rec iter f x = function
  | XI n' -> f (iter f (iter f x n') n')
  | XO n' -> iter f (iter f x n') n'
  | XH -> f x

  (** val div2 : positive -> positive **)

  let div2 = function
  | XI p0 -> p0
  | XO p0 -> p0
  | XH -> XH

  (** val div2_up : positive -> positive **)

  let div2_up = function
  | XI p0 -> succ p0
  | XO p0 -> p0
  | XH -> XH

  (** val size : positive -> positive **)

  let rec size = function
  | XI p0 -> succ (size p0)
  | XO p0 -> succ (size p0)
  | XH -> XH

  (** val compare_cont : comparison -> positive -> positive -> comparison **)

  let rec compare_cont r x y =
    match x with
    | XI p ->
      (match y with
       | XI q -> compare_cont r p q
       | XO q -> compare_cont Gt p q
       | XH -> Gt)
    | XO p ->
      (match y with
       | XI q -> compare_cont Lt p q
       | XO q -> compare_cont r p q
       | XH -> Gt)
    | XH -> (match y with
             | XH -> r
             | _ -> Lt)

  (** val compare : positive -> positive -> comparison **)

  let compare =
    compare_cont Eq

  (** val eqb : positive -> positive -> bool **)

  let rec eqb p q =
    match p with
    | XI p0 -> (match q with
                | XI q0 -> eqb p0 q0
                | _ -> false)
    | XO p0 -> (match q with
                | XO q0 -> eqb p0 q0
                | _ -> false)
    | XH -> (match q with
             | XH -> true
             | _ -> false)

  (** val coq_Nsucc_double : n -> n **)

  let coq_Nsucc_double = function
  | N0 -> Npos XH
  | Npos p -> Npos (XI p)

  (** val coq_Ndouble : n -> n **)

  let coq_Ndouble = function
  | N0 -> N0
  | Npos p -> Npos (XO p)

  (** val coq_lor : positive -> positive -> positive **)

  let rec coq_lor p q =
    match p with
    | XI p0 ->
      (match q with
       | XI q0 -> XI (coq_lor p0 q0)
       | XO q0 -> XI (coq_lor p0 q0)
       | XH -> p)
    | XO p0 ->
      (match q with
       | XI q0 -> XI (coq_lor p0 q0)
       | XO q0 -> XO (coq_lor p0 q0)
       | XH -> XI p0)
    | XH -> (match q with
             | XO q0 -> XI q0
             | _ -> q)

  (** val coq_land : positive -> positive -> n **)

  let rec coq_land p q =
    match p with
    | XI p0 ->
      (match q with
       | XI q0 -> coq_Nsucc_double (coq_land p0 q0)
       | XO q0 -> coq_Ndouble (coq_land p0 q0)
       | XH -> Npos XH)
    | XO p0 ->
      (match q with
       | XI q0 -> coq_Ndouble (coq_land p0 q0)
       | XO q0 -> coq_Ndouble (coq_land p0 q0)
       | XH -> N0)
    | XH -> (match q with
             | XO _ -> N0
             | _ -> Npos XH)

  (** val ldiff : positive -> positive -> n **)

  let rec ldiff p q =
    match p with
    | XI p0 ->
      (match q with
       | XI q0 -> coq_Ndouble (ldiff p0 q0)
       | XO q0 -> coq_Nsucc_double (ldiff p0 q0)
       | XH -> Npos (XO p0))
    | XO p0 ->
      (match q with
       | XI q0 -> coq_Ndouble (ldiff p0 q0)
       | XO q0 -> coq_Ndouble (ldiff p0 q0)
       | XH -> Npos p)
    | XH -> (match q with
             | XO _ -> Npos XH
             | _ -> N0)

  (** val coq_lxor : positive -> positive -> n **)

  let rec coq_lxor p q =
    match p with
    | XI p0 ->
      (match q with
       | XI q0 -> coq_Ndouble (coq_lxor p0 q0)
       | XO q0 -> coq_Nsucc_double (coq_lxor p0 q0)
       | XH -> Npos (XO p0))
    | XO p0 ->
      (match q with
       | XI q0 -> coq_Nsucc_double (coq_lxor p0 q0)
       | XO q0 -> coq_Ndouble (coq_lxor p0 q0)
       | XH -> Npos (XI p0))
    | XH ->
      (match q with
       | XI q0 -> Npos (XO q0)
       | XO q0 -> Npos (XI q0)
       | XH -> N0)

  (** val iter_op : ('a1 -> 'a1 -> 'a1) -> positive -> 'a1 -> 'a1 **)

  let rec iter_op op p a =
    match p with
    | XI p0 -> op a (iter_op op p0 (op a a))
    | XO p0 -> iter_op op p0 (op a a)
    | XH -> a

  (** val to_nat : positive -> nat **)

  let to_nat x =
    iter_op Coq__1.add x (S O)

  (** val of_succ_nat : nat -> positive **)

  let rec of_succ_nat = function
  | O -> XH
  | S x -> succ (of_succ_nat x)
 end

module N =
 struct
  (** val succ_double : n -> n **)

  let succ_double = function
  | N0 -> Npos XH
  | Npos p -> Npos (XI p)

  (** val double : n -> n **)

  let double = function
  | N0 -> N0
  | Npos p -> Npos (XO p)

  (** val succ_pos : n -> positive **)

  let succ_pos = function
  | N0 -> XH
  | Npos p -> Coq_Pos.succ p

  (** val sub : n -> n -> n **)

  let sub n0 m =
    match n0 with
    | N0 -> N0
    | Npos n' ->
      (match m with
       | N0 -> n0
       | Npos m' ->
         (match Coq_Pos.sub_mask n' m' with
          | Coq_Pos.IsPos p -> Npos p
          | _ -> N0))

  (** val compare : n -> n -> comparison **)

  let compare n0 m =
    match n0 with
    | N0 -> (match m with
             | N0 -> Eq
             | Npos _ -> Lt)
    | Npos n' -> (match m with
                  | N0 -> Gt
                  | Npos m' -> Coq_Pos.compare n' m')

  (** val leb : n -> n -> bool **)

  let leb x y =
    match compare x y with
    | Gt -> false
    | _ -> true

  (** val pos_div_eucl : positive -> n -> n * n **)

  let rec pos_div_eucl a b =
    match a with
    | XI a' ->
      let (q, r) = pos_div_eucl a' b in
      let r' = succ_double r in
      if leb b r' then ((succ_double q), (sub r' b)) else ((double q), r')
    | XO a' ->
      let (q, r) = pos_div_eucl a' b in
      let r' = double r in
      if leb b r' then ((succ_double q), (sub r' b)) else ((double q), r')
    | XH ->
      (match b with
       | N0 -> (N0, (Npos XH))
       | Npos p -> (match p with
                    | XH -> ((Npos XH), N0)
                    | _ -> (N0, (Npos XH))))

  (** val coq_lor : n -> n -> n **)

  let coq_lor n0 m =
    match n0 with
    | N0 -> m
    | Npos p -> (match m with
                 | N0 -> n0
                 | Npos q -> Npos (Coq_Pos.coq_lor p q))

  (** val coq_land : n -> n -> n **)

  let coq_land n0 m =
    match n0 with
    | N0 -> N0
    | Npos p -> (match m with
                 | N0 -> N0
                 | Npos q -> Coq_Pos.coq_land p q)

  (** val ldiff : n -> n -> n **)

  let ldiff n0 m =
    match n0 with
    | N0 -> N0
    | Npos p -> (match m with
                 | N0 -> n0
                 | Npos q -> Coq_Pos.ldiff p q)

  (** val coq_lxor : n -> n -> n **)

  let coq_lxor n0 m =
    match n0 with
    | N0 -> m
    | Npos p -> (match m with
                 | N0 -> n0
                 | Npos q -> Coq_Pos.coq_lxor p q)
 end

module Z =
 struct
  (** val double : z -> z **)

  let double = function
  | Z0 -> Z0
  | Zpos p -> Zpos (XO p)
  | Zneg p -> Zneg (XO p)

  (** val succ_double : z -> z **)

  let succ_double = function
  | Z0 -> Zpos XH
  | Zpos p -> Zpos (XI p)
  | Zneg p -> Zneg (Coq_Pos.pred_double p)

  (** val pred_double : z -> z **)

  let pred_double = function
  | Z0 -> Zneg XH
  | Zpos p -> Zpos (Coq_Pos.pred_double p)
  | Zneg p -> Zneg (XI p)

  (** val pos_sub : positive -> positive -> z **)

  let rec pos_sub x y =
    match x with
    | XI p ->
      (match y with
       | XI q -> double (pos_sub p q)
       | XO q -> succ_double (pos_sub p q)
       | XH -> Zpos (XO p))
    | XO p ->
      (match y with
       | XI q -> pred_double (pos_sub p q)
       | XO q -> double (pos_sub p q)
       | XH -> Zpos (Coq_Pos.pred_double p))
    | XH ->
      (match y with
       | XI q -> Zneg (XO q)
       | XO q -> Zneg (Coq_Pos.pred_double q)
       | XH -> Z0)

  (** val add : z -> z -> z **)

  let add x y =
    match x with
    | Z0 -> y
    | Zpos x' ->
      (match y with
       | Z0 -> x
       | Zpos y' -> Zpos (Coq_Pos.add x' y')
       | Zneg y' -> pos_sub x' y')
    | Zneg x' ->
      (match y with
       | Z0 -> x
       | Zpos y' -> pos_sub y' x'
       | Zneg y' -> Zneg (Coq_Pos.add x' y'))

  (** val opp : z -> z **)

  let opp = function
  | Z0 -> Z0
  | Zpos x0 -> Zneg x0
  | Zneg x0 -> Zpos x0

  (** val sub : z -> z -> z **)

  let sub m n0 =
    add m (opp n0)

  (** val mul : z -> z -> z **)

  let mul x y =
    match x with
    | Z0 -> Z0
    | Zpos x' ->
      (match y with
       | Z0 -> Z0
       | Zpos y' -> Zpos (Coq_Pos.mul x' y')
       | Zneg y' -> Zneg (Coq_Pos.mul x' y'))
    | Zneg x' ->
      (match y with
       | Z0 -> Z0
       | Zpos y' -> Zneg (Coq_Pos.mul x' y')
       | Zneg y' -> Zpos (Coq_Pos.mul x' y'))

  (** val pow_pos : z -> positive -> z **)

  let pow_pos z0 =
    Coq_Pos.iter (mul z0) (Zpos XH)

  (** val pow : z -> z -> z **)

  let pow x = function
  | Z0 -> Zpos XH
  | Zpos p -> pow_pos x p
  | Zneg _ -> Z0

  (** val compare : z -> z -> comparison **)

  let compare x y =
    match x with
    | Z0 -> (match y with
             | Z0 -> Eq
             | Zpos _ -> Lt
             | Zneg _ -> Gt)
    | Zpos x' -> (match y with
                  | Zpos y' -> Coq_Pos.compare x' y'
                  | _ -> Gt)
    | Zneg x' ->
      (match y with
       | Zneg y' -> compOpp (Coq_Pos.compare x' y')
       | _ -> Lt)

  (** val leb : z -> z -> bool **)

  let leb x y =
    match compare x y with
    | Gt -> false
    | _ -> true

  (** val ltb : z -> z -> bool **)

  let ltb x y =
    match compare x y with
    | Lt -> true
    | _ -> false

  (** val geb : z -> z -> bool **)

  let geb x y =
    match compare x y with
    | Lt -> false
    | _ -> true

  (** val gtb : z -> z -> bool **)

  let gtb x y =
    match compare x y with
    | Gt -> true
    | _ -> false

  (** val eqb : z -> z -> bool **)

  let eqb x y =
    match x with
    | Z0 -> (match y with
             | Z0 -> true
             | _ -> false)
    | Zpos p -> (match y with
                 | Zpos q -> Coq_Pos.eqb p q
                 | _ -> false)
    | Zneg p -> (match y with
                 | Zneg q -> Coq_Pos.eqb p q
                 | _ -> false)

  (** val max : z -> z -> z **)

  let max n0 m =
    match compare n0 m with
    | Lt -> m
    | _ -> n0

  (** val min : z -> z -> z **)

  let min n0 m =
    match compare n0 m with
    | Gt -> m
    | _ -> n0

  (** val to_nat : z -> nat **)

  let to_nat = function
  | Zpos p -> Coq_Pos.to_nat p
  | _ -> O

  (** val of_nat : nat -> z **)

  let of_nat = function
  | O -> Z0
  | S n1 -> Zpos (Coq_Pos.of_succ_nat n1)

  (** val of_N : n -> z **)

  let of_N = function
  | N0 -> Z0
  | Npos p -> Zpos p

  (** val pos_div_eucl : positive -> z -> z * z **)

  let rec pos_div_eucl a b =
    match a with
    | XI a' ->
      let (q, r) = pos_div_eucl a' b in
      let r' = add (mul (Zpos (XO XH)) r) (Zpos XH) in
      if ltb r' b
      then ((mul (Zpos (XO XH)) q), r')
      else ((add (mul (Zpos (XO XH)) q) (Zpos XH)), (sub r' b))
    | XO a' ->
      let (q, r) = pos_div_eucl a' b in
      let r' = mul (Zpos (XO XH)) r in
      if ltb r' b
      then ((mul (Zpos (XO XH)) q), r')
      else ((add (mul (Zpos (XO XH)) q) (Zpos XH)), (sub r' b))
    | XH -> if leb (Zpos (XO XH)) b then (Z0, (Zpos XH)) else ((Zpos XH), Z0)

  (** val div_eucl : z -> z -> z * z **)

  let div_eucl a b =
    match a with
    | Z0 -> (Z0, Z0)
    | Zpos a' ->
      (match b with
       | Z0 -> (Z0, a)
       | Zpos _ -> pos_div_eucl a' b
       | Zneg b' ->
         let (q, r) = pos_div_eucl a' (Zpos b') in
         (match r with
          | Z0 -> ((opp q), Z0)
          | _ -> ((opp (add q (Zpos XH))), (add b r))))
    | Zneg a' ->
      (match b with
       | Z0 -> (Z0, a)
       | Zpos _ ->
         let (q, r) = pos_div_eucl a' b in
         (match r with
          | Z0 -> ((opp q), Z0)
          | _ -> ((opp (add q (Zpos XH))), (sub b r)))
       | Zneg b' -> let (q, r) = pos_div_eucl a' (Zpos b') in (q, (opp r)))

  (** val div : z -> z -> z **)

  let div a b =
    let (q, _) = div_eucl a b in q

  (** val modulo : z -> z -> z **)

  let modulo a b =
    let (_, r) = div_eucl a b in r

  (** val quotrem : z -> z -> z * z **)

  let quotrem a b =
    match a with
    | Z0 -> (Z0, Z0)
    | Zpos a0 ->
      (match b with
       | Z0 -> (Z0, a)
       | Zpos b0 ->
         let (q, r) = N.pos_div_eucl a0 (Npos b0) in ((of_N q), (of_N r))
       | Zneg b0 ->
         let (q, r) = N.pos_div_eucl a0 (Npos b0) in
         ((opp (of_N q)), (of_N r)))
    | Zneg a0 ->
      (match b with
       | Z0 -> (Z0, a)
       | Zpos b0 ->
         let (q, r) = N.pos_div_eucl a0 (Npos b0) in
         ((opp (of_N q)), (opp (of_N r)))
       | Zneg b0 ->
         let (q, r) = N.pos_div_eucl a0 (Npos b0) in
         ((of_N q), (opp (of_N r))))

  (** val quot : z -> z -> z **)

  let quot a b =
    fst (quotrem a b)

  (** val even : z -> bool **)

  let even = function
  | Z0 -> true
  | Zpos p -> (match p with
               | XO _ -> true
               | _ -> false)
  | Zneg p -> (match p with
               | XO _ -> true
               | _ -> false)

  (** val div2 : z -> z **)

  let div2 = function
  | Z0 -> Z0
  | Zpos p -> (match p with
               | XH -> Z0
               | _ -> Zpos (Coq_Pos.div2 p))
  | Zneg p -> Zneg (Coq_Pos.div2_up p)

  (** val log2 : z -> z **)

  let log2 = function
  | Zpos p0 ->
    (match p0 with
     | XI p -> Zpos (Coq_Pos.size p)
     | XO p -> Zpos (Coq_Pos.size p)
     | XH -> Z0)
  | _ -> Z0

  (** val shiftl : z -> z -> z **)

  let shiftl a = function
  | Z0 -> a
  | Zpos p -> Coq_Pos.iter (mul (Zpos (XO XH))) a p
  | Zneg p -> Coq_Pos.iter div2 a p

  (** val shiftr : z -> z -> z **)

  let shiftr a n0 =
    shiftl a (opp n0)

  (** val coq_lor : z -> z -> z **)

  let coq_lor a b =
    match a with
    | Z0 -> b
    | Zpos a0 ->
      (match b with
       | Z0 -> a
       | Zpos b0 -> Zpos (Coq_Pos.coq_lor a0 b0)
       | Zneg b0 -> Zneg (N.succ_pos (N.ldiff (Coq_Pos.pred_N b0) (Npos a0))))
    | Zneg a0 ->
      (match b with
       | Z0 -> a
       | Zpos b0 -> Zneg (N.succ_pos (N.ldiff (Coq_Pos.pred_N a0) (Npos b0)))
       | Zneg b0 ->
         Zneg
           (N.succ_pos (N.coq_land (Coq_Pos.pred_N a0) (Coq_Pos.pred_N b0))))

  (** val coq_land : z -> z -> z **)

  let coq_land a b =
    match a with
    | Z0 -> Z0
    | Zpos a0 ->
      (match b with
       | Z0 -> Z0
       | Zpos b0 -> of_N (Coq_Pos.coq_land a0 b0)
       | Zneg b0 -> of_N (N.ldiff (Npos a0) (Coq_Pos.pred_N b0)))
    | Zneg a0 ->
      (match b with
       | Z0 -> Z0
       | Zpos b0 -> of_N (N.ldiff (Npos b0) (Coq_Pos.pred_N a0))
       | Zneg b0 ->
         Zneg (N.succ_pos (N.coq_lor (Coq_Pos.pred_N a0) (Coq_Pos.pred_N b0))))

  (** val coq_lxor : z -> z -> z **)

  let coq_lxor a b =
    match a with
    | Z0 -> b
    | Zpos a0 ->
      (match b with
       | Z0 -> a
       | Zpos b0 -> of_N (Coq_Pos.coq_lxor a0 b0)
       | Zneg b0 ->
         Zneg (N.succ_pos (N.coq_lxor (Npos a0) (Coq_Pos.pred_N b0))))
    | Zneg a0 ->
      (match b with
       | Z0 -> a
       | Zpos b0 ->
         Zneg (N.succ_pos (N.coq_lxor (Coq_Pos.pred_N a0) (Npos b0)))
       | Zneg b0 -> of_N (N.coq_lxor (Coq_Pos.pred_N a0) (Coq_Pos.pred_N b0)))
 end

(** val tl : 'a1 list -> 'a1 list **)

let tl = function
| [] -> []
| _ :: m -> m

(** val nth : nat -> 'a1 list -> 'a1 -> 'a1 **)

let rec nth n0 l default =
  match n0 with
  | O -> (match l with
          | [] -> default
          | x :: _ -> x)
  | S m -> (match l with
            | [] -> default
            | _ :: t -> nth m t default)

(** val rev : 'a1 list -> 'a1 list **)

let rec rev = function
| [] -> []
| x :: l' -> app (rev l') (x :: [])

(** val map : ('a1 -> 'a2) -> 'a1 list -> 'a2 list **)

let rec map f = function
| [] -> []
| a :: t -> (f a) :: (map f t)

(** val fold_left : ('a1 -> 'a2 -> 'a1) -> 'a2 list -> 'a1 -> 'a1 **)

let rec fold_left f l a0 =
  match l with
  | [] -> a0
  | b :: t -> fold_left f t (f a0 b)

(** val existsb : ('a1 -> bool) -> 'a1 list -> bool **)

let rec existsb f = function
| [] -> false
| a :: l0 -> (||) (f a) (existsb f l0)

(** val forallb : ('a1 -> bool) -> 'a1 list -> bool **)

let rec forallb f = function
| [] -> true
| a :: l0 -> (&&) (f a) (forallb f l0)

(** val firstn : nat -> 'a1 list -> 'a1 list **)

let rec firstn n0 l =
  match n0 with
  | O -> []
  | S n1 -> (match l with
             | [] -> []
             | a :: l0 -> a :: (firstn n1 l0))

(** val skipn : nat -> 'a1 list -> 'a1 list **)

let rec skipn n0 l =
  match n0 with
  | O -> l
  | S n1 -> (match l with
             | [] -> []
             | _ :: l0 -> skipn n1 l0)

(** val repeat : 'a1 -> nat -> 'a1 list **)

let rec repeat x = function
| O -> []
| S k -> x :: (repeat x k)

(** val w8 : z -> z **)

let w8 x =
  Z.modulo x (Z.pow (Zpos (XO XH)) (Zpos (XO (XO (XO XH)))))

(** val w16 : z -> z **)

let w16 x =
  Z.modulo x (Z.pow (Zpos (XO XH)) (Zpos (XO (XO (XO (XO XH))))))

(** val w32 : z -> z **)

let w32 x =
  Z.modulo x (Z.pow (Zpos (XO XH)) (Zpos (XO (XO (XO (XO (XO XH)))))))

(** val w64 : z -> z **)

let w64 x =
  Z.modulo x (Z.pow (Zpos (XO XH)) (Zpos (XO (XO (XO (XO (XO (XO XH))))))))

(** val s8 : z -> z **)

let s8 x =
  let y = w8 x in
  if Z.ltb y (Z.pow (Zpos (XO XH)) (Zpos (XI (XI XH))))
  then y
  else Z.sub y (Z.pow (Zpos (XO XH)) (Zpos (XO (XO (XO XH)))))

(** val s16 : z -> z **)

let s16 x =
  let y = w16 x in
  if Z.ltb y (Z.pow (Zpos (XO XH)) (Zpos (XI (XI (XI XH)))))
  then y
  else Z.sub y (Z.pow (Zpos (XO XH)) (Zpos (XO (XO (XO (XO XH))))))

(** val s32 : z -> z **)

let s32 x =
  let y = w32 x in
  if Z.ltb y (Z.pow (Zpos (XO XH)) (Zpos (XI (XI (XI (XI XH))))))
  then y
  else Z.sub y (Z.pow (Zpos (XO XH)) (Zpos (XO (XO (XO (XO (XO XH)))))))

(** val s64 : z -> z **)

let s64 x =
  let y = w64 x in
  if Z.ltb y (Z.pow (Zpos (XO XH)) (Zpos (XI (XI (XI (XI (XI XH)))))))
  then y
  else Z.sub y (Z.pow (Zpos (XO XH)) (Zpos (XO (XO (XO (XO (XO (XO XH))))))))

(** val add64 : z -> z -> z **)

let add64 a b =
  w64 (Z.add a b)

(** val sub64 : z -> z -> z **)

let sub64 a b =
  w64 (Z.sub a b)

(** val mul64 : z -> z -> z **)

let mul64 a b =
  w64 (Z.mul a b)

(** val div64 : z -> z -> z **)

let div64 =
  Z.div

(** val rem64 : z -> z -> z **)

let rem64 =
  Z.modulo

(** val and64 : z -> z -> z **)

let and64 =
  Z.coq_land

(** val or64 : z -> z -> z **)

let or64 =
  Z.coq_lor

(** val xor64 : z -> z -> z **)

let xor64 =
  Z.coq_lxor

(** val not64 : z -> z **)

let not64 a =
  Z.sub
    (Z.sub (Z.pow (Zpos (XO XH)) (Zpos (XO (XO (XO (XO (XO (XO XH))))))))
      (Zpos XH)) a

(** val shl64 : z -> z -> z **)

let shl64 a n0 =
  if Z.ltb n0 (Zpos (XO (XO (XO (XO (XO (XO XH)))))))
  then w64 (Z.shiftl a n0)
  else Z0

(** val shr64 : z -> z -> z **)

let shr64 a n0 =
  if Z.ltb n0 (Zpos (XO (XO (XO (XO (XO (XO XH)))))))
  then Z.shiftr a n0
  else Z0

(** val add32 : z -> z -> z **)

let add32 a b =
  w32 (Z.add a b)

(** val sub32 : z -> z -> z **)

let sub32 a b =
  w32 (Z.sub a b)

(** val mul32 : z -> z -> z **)

let mul32 a b =
  w32 (Z.mul a b)

(** val and32 : z -> z -> z **)

let and32 =
  Z.coq_land

(** val or32 : z -> z -> z **)

let or32 =
  Z.coq_lor

(** val not32 : z -> z **)

let not32 a =
  Z.sub
    (Z.sub (Z.pow (Zpos (XO XH)) (Zpos (XO (XO (XO (XO (XO XH))))))) (Zpos
      XH)) a

(** val shl32 : z -> z -> z **)

let shl32 a n0 =
  if Z.ltb n0 (Zpos (XO (XO (XO (XO (XO XH))))))
  then w32 (Z.shiftl a n0)
  else Z0

(** val sub8 : z -> z -> z **)

let sub8 a b =
  w8 (Z.sub a b)

(** val and8 : z -> z -> z **)

let and8 =
  Z.coq_land

(** val or8 : z -> z -> z **)

let or8 =
  Z.coq_lor

(** val xor8 : z -> z -> z **)

let xor8 =
  Z.coq_lxor

(** val addi64 : z -> z -> z **)

let addi64 a b =
  s64 (Z.add a b)

(** val subi64 : z -> z -> z **)

let subi64 a b =
  s64 (Z.sub a b)

(** val muli64 : z -> z -> z **)

let muli64 a b =
  s64 (Z.mul a b)

(** val divi64 : z -> z -> z **)

let divi64 a b =
  s64 (Z.quot a b)

(** val andi64 : z -> z -> z **)

let andi64 a b =
  s64 (Z.coq_land a b)

(** val xori64 : z -> z -> z **)

let xori64 a b =
  s64 (Z.coq_lxor a b)

(** val shri64 : z -> z -> z **)

let shri64 a n0 =
  if Z.ltb n0 (Zpos (XO (XO (XO (XO (XO (XO XH)))))))
  then Z.shiftr a n0
  else if Z.ltb a Z0 then Zneg XH else Z0

(** val negi64 : z -> z **)

let negi64 a =
  s64 (Z.opp a)

type bytes = z list

(** val is_byte : z -> bool **)

let is_byte b =
  (&&) (Z.leb Z0 b)
    (Z.ltb b (Zpos (XO (XO (XO (XO (XO (XO (XO (XO XH))))))))))

(** val wfb : bytes -> bool **)

let wfb bs =
  forallb is_byte bs

(** val len : 'a1 list -> z **)

let len l =
  Z.of_nat (length l)

(** val at_ : bytes -> z -> z **)

let at_ b i =
  nth (Z.to_nat i) b Z0

(** val slice_from : 'a1 list -> z -> 'a1 list **)

let slice_from b i =
  skipn (Z.to_nat i) b

(** val slice_to : 'a1 list -> z -> 'a1 list **)

let slice_to b j =
  firstn (Z.to_nat j) b

(** val slice : 'a1 list -> z -> z -> 'a1 list **)

let slice b i j =
  firstn (Z.to_nat (Z.sub j i)) (skipn (Z.to_nat i) b)

(** val le_load : nat -> bytes -> z **)

let rec le_load n0 b =
  match n0 with
  | O -> Z0
  | S n' ->
    (match b with
     | [] -> Z0
     | x :: r ->
       Z.add x
         (Z.mul (Zpos (XO (XO (XO (XO (XO (XO (XO (XO XH)))))))))
           (le_load n' r)))

(** val le64 : bytes -> z **)

let le64 b =
  le_load (S (S (S (S (S (S (S (S O)))))))) b

(** val le32 : bytes -> z **)

let le32 b =
  le_load (S (S (S (S O)))) b

(** val le16 : bytes -> z **)

let le16 b =
  le_load (S (S O)) b

(** val upd : bytes -> z -> z -> bytes **)

let upd b i v =
  app (firstn (Z.to_nat i) b)
    (match skipn (Z.to_nat i) b with
     | [] -> []
     | _ :: r -> v :: r)

(** val splice : bytes -> z -> bytes -> bytes **)

let splice b i w =
  app (firstn (Z.to_nat i) b) (app w (skipn (add (Z.to_nat i) (length w)) b))

(** val isnil : 'a1 option -> bool **)

let isnil = function
| Some _ -> false
| None -> true

(** val bytes_eqb : bytes -> bytes -> bool **)

let rec bytes_eqb a b =
  match a with
  | [] -> (match b with
           | [] -> true
           | _ :: _ -> false)
  | x :: a' ->
    (match b with
     | [] -> false
     | y :: b' -> (&&) (Z.eqb x y) (bytes_eqb a' b'))

(** val obind : 'a1 option -> ('a1 -> 'a2 option) -> 'a2 option **)

let obind o f =
  match o with
  | Some a -> f a
  | None -> None

type time_t = (z * z) * z

(** val time_zero : time_t **)

let time_zero =
  ((Z0, Z0), Z0)

(** val time_unix_utc : z -> z -> time_t **)

let time_unix_utc sec nanos =
  ((sec, nanos), Z0)

(** val isdig : z -> bool **)

let isdig c =
  (&&) (Z.leb (Zpos (XO (XO (XO (XO (XI XH)))))) c)
    (Z.leb c (Zpos (XI (XO (XO (XI (XI XH)))))))

(** val is_leap : z -> bool **)

let is_leap y =
  (&&) (Z.eqb (Z.modulo y (Zpos (XO (XO XH)))) Z0)
    ((||)
      (negb (Z.eqb (Z.modulo y (Zpos (XO (XO (XI (XO (XO (XI XH)))))))) Z0))
      (Z.eqb (Z.modulo y (Zpos (XO (XO (XO (XO (XI (XO (XO (XI XH))))))))))
        Z0))

(** val leaps_before : z -> z **)

let leaps_before y =
  Z.add
    (Z.sub (Z.div (Z.add y (Zpos (XI XH))) (Zpos (XO (XO XH))))
      (Z.div (Z.add y (Zpos (XI (XI (XO (XO (XO (XI XH)))))))) (Zpos (XO (XO
        (XI (XO (XO (XI XH)))))))))
    (Z.div (Z.add y (Zpos (XI (XI (XI (XI (XO (XO (XO (XI XH)))))))))) (Zpos
      (XO (XO (XO (XO (XI (XO (XO (XI XH))))))))))

(** val days_before_year : z -> z **)

let days_before_year y =
  Z.add (Z.mul (Zpos (XI (XO (XI (XI (XO (XI (XI (XO XH))))))))) y)
    (leaps_before y)

(** val days_before_month : bool -> z -> z **)

let days_before_month leap m =
  Z.add
    (nth (Z.to_nat (Z.sub m (Zpos XH))) (Z0 :: ((Zpos (XI (XI (XI (XI
      XH))))) :: ((Zpos (XI (XI (XO (XI (XI XH)))))) :: ((Zpos (XO (XI (XO
      (XI (XI (XO XH))))))) :: ((Zpos (XO (XO (XO (XI (XI (XI
      XH))))))) :: ((Zpos (XI (XI (XI (XO (XI (XO (XO XH)))))))) :: ((Zpos
      (XI (XO (XI (XO (XI (XI (XO XH)))))))) :: ((Zpos (XO (XO (XI (XO (XI
      (XO (XI XH)))))))) :: ((Zpos (XI (XI (XO (XO (XI (XI (XI
      XH)))))))) :: ((Zpos (XI (XO (XO (XO (XI (XO (XO (XO
      XH))))))))) :: ((Zpos (XO (XO (XO (XO (XI (XI (XO (XO
      XH))))))))) :: ((Zpos (XO (XI (XI (XI (XO (XO (XI (XO
      XH))))))))) :: [])))))))))))) Z0)
    (if (&&) leap (Z.leb (Zpos (XI XH)) m) then Zpos XH else Z0)

(** val days_in : z -> z -> z **)

let days_in m y =
  if Z.eqb m (Zpos (XO XH))
  then if is_leap y
       then Zpos (XI (XO (XI (XI XH))))
       else Zpos (XO (XO (XI (XI XH))))
  else if (||)
            ((||)
              ((||) (Z.eqb m (Zpos (XO (XO XH))))
                (Z.eqb m (Zpos (XO (XI XH)))))
              (Z.eqb m (Zpos (XI (XO (XO XH))))))
            (Z.eqb m (Zpos (XI (XI (XO XH)))))
       then Zpos (XO (XI (XI (XI XH))))
       else Zpos (XI (XI (XI (XI XH))))

(** val unix_days : z -> z -> z -> z **)

let unix_days y m d =
  Z.sub
    (Z.add (Z.add (days_before_year y) (days_before_month (is_leap y) m))
      (Z.sub d (Zpos XH))) (Zpos (XO (XO (XO (XI (XO (XI (XO (XI (XO (XI (XO
    (XI (XI (XI (XI (XI (XO (XI (XO XH))))))))))))))))))))

(** val civil_seconds : z -> z -> z -> z -> z -> z -> z **)

let civil_seconds y m d hh mm ss =
  Z.add
    (Z.add
      (Z.add
        (Z.mul (unix_days y m d) (Zpos (XO (XO (XO (XO (XO (XO (XO (XI (XI
          (XO (XO (XO (XI (XO (XI (XO XH))))))))))))))))))
        (Z.mul hh (Zpos (XO (XO (XO (XO (XI (XO (XO (XO (XO (XI (XI
          XH)))))))))))))) (Z.mul mm (Zpos (XO (XO (XI (XI (XI XH)))))))) ss

(** val rfc3339nano_layout : bytes **)

let rfc3339nano_layout =
  (Zpos (XO (XI (XO (XO (XI XH)))))) :: ((Zpos (XO (XO (XO (XO (XI
    XH)))))) :: ((Zpos (XO (XO (XO (XO (XI XH)))))) :: ((Zpos (XO (XI (XI (XO
    (XI XH)))))) :: ((Zpos (XI (XO (XI (XI (XO XH)))))) :: ((Zpos (XO (XO (XO
    (XO (XI XH)))))) :: ((Zpos (XI (XO (XO (XO (XI XH)))))) :: ((Zpos (XI (XO
    (XI (XI (XO XH)))))) :: ((Zpos (XO (XO (XO (XO (XI XH)))))) :: ((Zpos (XO
    (XI (XO (XO (XI XH)))))) :: ((Zpos (XO (XO (XI (XO (XI (XO
    XH))))))) :: ((Zpos (XI (XO (XO (XO (XI XH)))))) :: ((Zpos (XI (XO (XI
    (XO (XI XH)))))) :: ((Zpos (XO (XI (XO (XI (XI XH)))))) :: ((Zpos (XO (XO
    (XO (XO (XI XH)))))) :: ((Zpos (XO (XO (XI (XO (XI XH)))))) :: ((Zpos (XO
    (XI (XO (XI (XI XH)))))) :: ((Zpos (XO (XO (XO (XO (XI XH)))))) :: ((Zpos
    (XI (XO (XI (XO (XI XH)))))) :: ((Zpos (XO (XI (XI (XI (XO
    XH)))))) :: ((Zpos (XI (XO (XO (XI (XI XH)))))) :: ((Zpos (XI (XO (XO (XI
    (XI XH)))))) :: ((Zpos (XI (XO (XO (XI (XI XH)))))) :: ((Zpos (XI (XO (XO
    (XI (XI XH)))))) :: ((Zpos (XI (XO (XO (XI (XI XH)))))) :: ((Zpos (XI (XO
    (XO (XI (XI XH)))))) :: ((Zpos (XI (XO (XO (XI (XI XH)))))) :: ((Zpos (XI
    (XO (XO (XI (XI XH)))))) :: ((Zpos (XI (XO (XO (XI (XI XH)))))) :: ((Zpos
    (XO (XI (XO (XI (XI (XO XH))))))) :: ((Zpos (XO (XO (XO (XO (XI
    XH)))))) :: ((Zpos (XI (XI (XI (XO (XI XH)))))) :: ((Zpos (XO (XI (XO (XI
    (XI XH)))))) :: ((Zpos (XO (XO (XO (XO (XI XH)))))) :: ((Zpos (XO (XO (XO
    (XO (XI XH)))))) :: []))))))))))))))))))))))))))))))))))

(** val getnum2 : bytes -> (z * bytes) option **)

let getnum2 = function
| [] -> None
| a :: l ->
  (match l with
   | [] -> None
   | b :: r ->
     if (&&) (isdig a) (isdig b)
     then Some
            ((Z.add
               (Z.mul (Z.sub a (Zpos (XO (XO (XO (XO (XI XH))))))) (Zpos (XO
                 (XI (XO XH))))) (Z.sub b (Zpos (XO (XO (XO (XO (XI XH)))))))),
            r)
     else None)

(** val getnum12 : bytes -> (z * bytes) option **)

let getnum12 = function
| [] -> None
| a :: r ->
  if isdig a
  then (match r with
        | [] -> Some ((Z.sub a (Zpos (XO (XO (XO (XO (XI XH))))))), r)
        | b :: r' ->
          if isdig b
          then Some
                 ((Z.add
                    (Z.mul (Z.sub a (Zpos (XO (XO (XO (XO (XI XH))))))) (Zpos
                      (XO (XI (XO XH)))))
                    (Z.sub b (Zpos (XO (XO (XO (XO (XI XH)))))))), r')
          else Some ((Z.sub a (Zpos (XO (XO (XO (XO (XI XH))))))), r))
  else None

(** val getyear : bytes -> (z * bytes) option **)

let getyear = function
| [] -> None
| a :: l ->
  (match l with
   | [] -> None
   | b :: l0 ->
     (match l0 with
      | [] -> None
      | c :: l1 ->
        (match l1 with
         | [] -> None
         | d :: r ->
           if (&&) ((&&) ((&&) (isdig a) (isdig b)) (isdig c)) (isdig d)
           then Some
                  ((Z.add
                     (Z.add
                       (Z.add
                         (Z.mul (Z.sub a (Zpos (XO (XO (XO (XO (XI XH)))))))
                           (Zpos (XO (XO (XO (XI (XO (XI (XI (XI (XI
                           XH)))))))))))
                         (Z.mul (Z.sub b (Zpos (XO (XO (XO (XO (XI XH)))))))
                           (Zpos (XO (XO (XI (XO (XO (XI XH)))))))))
                       (Z.mul (Z.sub c (Zpos (XO (XO (XO (XO (XI XH)))))))
                         (Zpos (XO (XI (XO XH))))))
                     (Z.sub d (Zpos (XO (XO (XO (XO (XI XH)))))))), r)
           else None)))

(** val lit : z -> bytes -> bytes option **)

let lit c = function
| [] -> None
| x :: r -> if Z.eqb x c then Some r else None

(** val span_digits : bytes -> bytes * bytes **)

let rec span_digits v = match v with
| [] -> ([], [])
| x :: r ->
  if isdig x
  then let (ds, rest) = span_digits r in ((x :: ds), rest)
  else ([], v)

(** val digits_value : bytes -> z **)

let digits_value ds =
  fold_left (fun acc c ->
    Z.add (Z.mul acc (Zpos (XO (XI (XO XH)))))
      (Z.sub c (Zpos (XO (XO (XO (XO (XI XH)))))))) ds Z0

(** val getfrac : bytes -> z * bytes **)

let getfrac v = match v with
| [] -> (Z0, v)
| s :: l ->
  (match l with
   | [] -> (Z0, v)
   | d :: _ ->
     if (&&)
          ((||) (Z.eqb s (Zpos (XO (XI (XI (XI (XO XH)))))))
            (Z.eqb s (Zpos (XO (XO (XI (XI (XO XH)))))))) (isdig d)
     then let (ds, rest) = span_digits (tl v) in
          let ds9 = firstn (S (S (S (S (S (S (S (S (S O))))))))) ds in
          ((Z.mul (digits_value ds9)
             (Z.pow (Zpos (XO (XI (XO XH))))
               (Z.sub (Zpos (XI (XO (XO XH)))) (len ds9)))), rest)
     else (Z0, v))

(** val getzone : bytes -> (z * bytes) option **)

let getzone = function
| [] -> None
| sg :: r ->
  (match sg with
   | Zpos p ->
     (match p with
      | XO p0 ->
        (match p0 with
         | XI p1 ->
           (match p1 with
            | XO p2 ->
              (match p2 with
               | XI p3 ->
                 (match p3 with
                  | XI p4 ->
                    (match p4 with
                     | XO p5 ->
                       (match p5 with
                        | XH -> Some (Z0, r)
                        | _ ->
                          (match r with
                           | [] -> None
                           | h1 :: l ->
                             (match l with
                              | [] -> None
                              | h2 :: l0 ->
                                (match l0 with
                                 | [] -> None
                                 | c :: l1 ->
                                   (match l1 with
                                    | [] -> None
                                    | m1 :: l2 ->
                                      (match l2 with
                                       | [] -> None
                                       | m2 :: r0 ->
                                         if (&&)
                                              ((&&)
                                                ((&&)
                                                  ((&&)
                                                    (Z.eqb c (Zpos (XO (XI
                                                      (XO (XI (XI XH)))))))
                                                    (isdig h1)) (isdig h2))
                                                (isdig m1)) (isdig m2)
                                         then let hr =
                                                Z.add
                                                  (Z.mul
                                                    (Z.sub h1 (Zpos (XO (XO
                                                      (XO (XO (XI XH)))))))
                                                    (Zpos (XO (XI (XO XH)))))
                                                  (Z.sub h2 (Zpos (XO (XO (XO
                                                    (XO (XI XH)))))))
                                              in
                                              let mm =
                                                Z.add
                                                  (Z.mul
                                                    (Z.sub m1 (Zpos (XO (XO
                                                      (XO (XO (XI XH)))))))
                                                    (Zpos (XO (XI (XO XH)))))
                                                  (Z.sub m2 (Zpos (XO (XO (XO
                                                    (XO (XI XH)))))))
                                              in
                                              if (||)
                                                   (Z.gtb hr (Zpos (XO (XO
                                                     (XO (XI XH))))))
                                                   (Z.gtb mm (Zpos (XO (XO
                                                     (XI (XI (XI XH)))))))
                                              then None
                                              else if Z.eqb sg (Zpos (XI (XI
                                                        (XO (XI (XO XH))))))
                                                   then Some
                                                          ((Z.mul
                                                             (Z.add
                                                               (Z.mul hr
                                                                 (Zpos (XO
                                                                 (XO (XI (XI
                                                                 (XI XH)))))))
                                                               mm) (Zpos (XO
                                                             (XO (XI (XI (XI
                                                             XH))))))), r0)
                                                   else if Z.eqb sg (Zpos (XI
                                                             (XO (XI (XI (XO
                                                             XH))))))
                                                        then Some
                                                               ((Z.opp
                                                                  (Z.mul
                                                                    (Z.add
                                                                    (Z.mul hr
                                                                    (Zpos (XO
                                                                    (XO (XI
                                                                    (XI (XI
                                                                    XH)))))))
                                                                    mm) (Zpos
                                                                    (XO (XO
                                                                    (XI (XI
                                                                    (XI
                                                                    XH)))))))),
                                                               r0)
                                                        else None
                                         else None))))))
                     | _ ->
                       (match r with
                        | [] -> None
                        | h1 :: l ->
                          (match l with
                           | [] -> None
                           | h2 :: l0 ->
                             (match l0 with
                              | [] -> None
                              | c :: l1 ->
                                (match l1 with
                                 | [] -> None
                                 | m1 :: l2 ->
                                   (match l2 with
                                    | [] -> None
                                    | m2 :: r0 ->
                                      if (&&)
                                           ((&&)
                                             ((&&)
                                               ((&&)
                                                 (Z.eqb c (Zpos (XO (XI (XO
                                                   (XI (XI XH)))))))
                                                 (isdig h1)) (isdig h2))
                                             (isdig m1)) (isdig m2)
                                      then let hr =
                                             Z.add
                                               (Z.mul
                                                 (Z.sub h1 (Zpos (XO (XO (XO
                                                   (XO (XI XH))))))) (Zpos
                                                 (XO (XI (XO XH)))))
                                               (Z.sub h2 (Zpos (XO (XO (XO
                                                 (XO (XI XH)))))))
                                           in
                                           let mm =
                                             Z.add
                                               (Z.mul
                                                 (Z.sub m1 (Zpos (XO (XO (XO
                                                   (XO (XI XH))))))) (Zpos
                                                 (XO (XI (XO XH)))))
                                               (Z.sub m2 (Zpos (XO (XO (XO
                                                 (XO (XI XH)))))))
                                           in
                                           if (||)
                                                (Z.gtb hr (Zpos (XO (XO (XO
                                                  (XI XH))))))
                                                (Z.gtb mm (Zpos (XO (XO (XI
                                                  (XI (XI XH)))))))
                                           then None
                                           else if Z.eqb sg (Zpos (XI (XI (XO
                                                     (XI (XO XH))))))
                                                then Some
                                                       ((Z.mul
                                                          (Z.add
                                                            (Z.mul hr (Zpos
                                                              (XO (XO (XI (XI
                                                              (XI XH)))))))
                                                            mm) (Zpos (XO (XO
                                                          (XI (XI (XI
                                                          XH))))))), r0)
                                                else if Z.eqb sg (Zpos (XI
                                                          (XO (XI (XI (XO
                                                          XH))))))
                                                     then Some
                                                            ((Z.opp
                                                               (Z.mul
                                                                 (Z.add
                                                                   (Z.mul hr
                                                                    (Zpos (XO
                                                                    (XO (XI
                                                                    (XI (XI
                                                                    XH)))))))
                                                                   mm) (Zpos
                                                                 (XO (XO (XI
                                                                 (XI (XI
                                                                 XH)))))))),
                                                            r0)
                                                     else None
                                      else None))))))
                  | _ ->
                    (match r with
                     | [] -> None
                     | h1 :: l ->
                       (match l with
                        | [] -> None
                        | h2 :: l0 ->
                          (match l0 with
                           | [] -> None
                           | c :: l1 ->
                             (match l1 with
                              | [] -> None
                              | m1 :: l2 ->
                                (match l2 with
                                 | [] -> None
                                 | m2 :: r0 ->
                                   if (&&)
                                        ((&&)
                                          ((&&)
                                            ((&&)
                                              (Z.eqb c (Zpos (XO (XI (XO (XI
                                                (XI XH))))))) (isdig h1))
                                            (isdig h2)) (isdig m1)) (isdig m2)
                                   then let hr =
                                          Z.add
                                            (Z.mul
                                              (Z.sub h1 (Zpos (XO (XO (XO (XO
                                                (XI XH))))))) (Zpos (XO (XI
                                              (XO XH)))))
                                            (Z.sub h2 (Zpos (XO (XO (XO (XO
                                              (XI XH)))))))
                                        in
                                        let mm =
                                          Z.add
                                            (Z.mul
                                              (Z.sub m1 (Zpos (XO (XO (XO (XO
                                                (XI XH))))))) (Zpos (XO (XI
                                              (XO XH)))))
                                            (Z.sub m2 (Zpos (XO (XO (XO (XO
                                              (XI XH)))))))
                                        in
                                        if (||)
                                             (Z.gtb hr (Zpos (XO (XO (XO (XI
                                               XH))))))
                                             (Z.gtb mm (Zpos (XO (XO (XI (XI
                                               (XI XH)))))))
                                        then None
                                        else if Z.eqb sg (Zpos (XI (XI (XO
                                                  (XI (XO XH))))))
                                             then Some
                                                    ((Z.mul
                                                       (Z.add
                                                         (Z.mul hr (Zpos (XO
                                                           (XO (XI (XI (XI
                                                           XH))))))) mm)
                                                       (Zpos (XO (XO (XI (XI
                                                       (XI XH))))))), r0)
                                             else if Z.eqb sg (Zpos (XI (XO
                                                       (XI (XI (XO XH))))))
                                                  then Some
                                                         ((Z.opp
                                                            (Z.mul
                                                              (Z.add
                                                                (Z.mul hr
                                                                  (Zpos (XO
                                                                  (XO (XI (XI
                                                                  (XI
                                                                  XH)))))))
                                                                mm) (Zpos (XO
                                                              (XO (XI (XI (XI
                                                              XH)))))))), r0)
                                                  else None
                                   else None))))))
               | _ ->
                 (match r with
                  | [] -> None
                  | h1 :: l ->
                    (match l with
                     | [] -> None
                     | h2 :: l0 ->
                       (match l0 with
                        | [] -> None
                        | c :: l1 ->
                          (match l1 with
                           | [] -> None
                           | m1 :: l2 ->
                             (match l2 with
                              | [] -> None
                              | m2 :: r0 ->
                                if (&&)
                                     ((&&)
                                       ((&&)
                                         ((&&)
                                           (Z.eqb c (Zpos (XO (XI (XO (XI (XI
                                             XH))))))) (isdig h1)) (isdig h2))
                                       (isdig m1)) (isdig m2)
                                then let hr =
                                       Z.add
                                         (Z.mul
                                           (Z.sub h1 (Zpos (XO (XO (XO (XO
                                             (XI XH))))))) (Zpos (XO (XI (XO
                                           XH)))))
                                         (Z.sub h2 (Zpos (XO (XO (XO (XO (XI
                                           XH)))))))
                                     in
                                     let mm =
                                       Z.add
                                         (Z.mul
                                           (Z.sub m1 (Zpos (XO (XO (XO (XO
                                             (XI XH))))))) (Zpos (XO (XI (XO
                                           XH)))))
                                         (Z.sub m2 (Zpos (XO (XO (XO (XO (XI
                                           XH)))))))
                                     in
                                     if (||)
                                          (Z.gtb hr (Zpos (XO (XO (XO (XI
                                            XH))))))
                                          (Z.gtb mm (Zpos (XO (XO (XI (XI (XI
                                            XH)))))))
                                     then None
                                     else if Z.eqb sg (Zpos (XI (XI (XO (XI
                                               (XO XH))))))
                                          then Some
                                                 ((Z.mul
                                                    (Z.add
                                                      (Z.mul hr (Zpos (XO (XO
                                                        (XI (XI (XI XH)))))))
                                                      mm) (Zpos (XO (XO (XI
                                                    (XI (XI XH))))))), r0)
                                          else if Z.eqb sg (Zpos (XI (XO (XI
                                                    (XI (XO XH))))))
                                               then Some
                                                      ((Z.opp
                                                         (Z.mul
                                                           (Z.add
                                                             (Z.mul hr (Zpos
                                                               (XO (XO (XI
                                                               (XI (XI
                                                               XH))))))) mm)
                                                           (Zpos (XO (XO (XI
                                                           (XI (XI XH)))))))),
                                                      r0)
                                               else None
                                else None))))))
            | _ ->
              (match r with
               | [] -> None
               | h1 :: l ->
                 (match l with
                  | [] -> None
                  | h2 :: l0 ->
                    (match l0 with
                     | [] -> None
                     | c :: l1 ->
                       (match l1 with
                        | [] -> None
                        | m1 :: l2 ->
                          (match l2 with
                           | [] -> None
                           | m2 :: r0 ->
                             if (&&)
                                  ((&&)
                                    ((&&)
                                      ((&&)
                                        (Z.eqb c (Zpos (XO (XI (XO (XI (XI
                                          XH))))))) (isdig h1)) (isdig h2))
                                    (isdig m1)) (isdig m2)
                             then let hr =
                                    Z.add
                                      (Z.mul
                                        (Z.sub h1 (Zpos (XO (XO (XO (XO (XI
                                          XH))))))) (Zpos (XO (XI (XO XH)))))
                                      (Z.sub h2 (Zpos (XO (XO (XO (XO (XI
                                        XH)))))))
                                  in
                                  let mm =
                                    Z.add
                                      (Z.mul
                                        (Z.sub m1 (Zpos (XO (XO (XO (XO (XI
                                          XH))))))) (Zpos (XO (XI (XO XH)))))
                                      (Z.sub m2 (Zpos (XO (XO (XO (XO (XI
                                        XH)))))))
                                  in
                                  if (||)
                                       (Z.gtb hr (Zpos (XO (XO (XO (XI
                                         XH))))))
                                       (Z.gtb mm (Zpos (XO (XO (XI (XI (XI
                                         XH)))))))
                                  then None
                                  else if Z.eqb sg (Zpos (XI (XI (XO (XI (XO
                                            XH))))))
                                       then Some
                                              ((Z.mul
                                                 (Z.add
                                                   (Z.mul hr (Zpos (XO (XO
                                                     (XI (XI (XI XH))))))) mm)
                                                 (Zpos (XO (XO (XI (XI (XI
                                                 XH))))))), r0)
                                       else if Z.eqb sg (Zpos (XI (XO (XI (XI
                                                 (XO XH))))))
                                            then Some
                                                   ((Z.opp
                                                      (Z.mul
                                                        (Z.add
                                                          (Z.mul hr (Zpos (XO
                                                            (XO (XI (XI (XI
                                                            XH))))))) mm)
                                                        (Zpos (XO (XO (XI (XI
                                                        (XI XH)))))))), r0)
                                            else None
                             else None))))))
         | _ ->
           (match r with
            | [] -> None
            | h1 :: l ->
              (match l with
               | [] -> None
               | h2 :: l0 ->
                 (match l0 with
                  | [] -> None
                  | c :: l1 ->
                    (match l1 with
                     | [] -> None
                     | m1 :: l2 ->
                       (match l2 with
                        | [] -> None
                        | m2 :: r0 ->
                          if (&&)
                               ((&&)
                                 ((&&)
                                   ((&&)
                                     (Z.eqb c (Zpos (XO (XI (XO (XI (XI
                                       XH))))))) (isdig h1)) (isdig h2))
                                 (isdig m1)) (isdig m2)
                          then let hr =
                                 Z.add
                                   (Z.mul
                                     (Z.sub h1 (Zpos (XO (XO (XO (XO (XI
                                       XH))))))) (Zpos (XO (XI (XO XH)))))
                                   (Z.sub h2 (Zpos (XO (XO (XO (XO (XI
                                     XH)))))))
                               in
                               let mm =
                                 Z.add
                                   (Z.mul
                                     (Z.sub m1 (Zpos (XO (XO (XO (XO (XI
                                       XH))))))) (Zpos (XO (XI (XO XH)))))
                                   (Z.sub m2 (Zpos (XO (XO (XO (XO (XI
                                     XH)))))))
                               in
                               if (||)
                                    (Z.gtb hr (Zpos (XO (XO (XO (XI XH))))))
                                    (Z.gtb mm (Zpos (XO (XO (XI (XI (XI
                                      XH)))))))
                               then None
                               else if Z.eqb sg (Zpos (XI (XI (XO (XI (XO
                                         XH))))))
                                    then Some
                                           ((Z.mul
                                              (Z.add
                                                (Z.mul hr (Zpos (XO (XO (XI
                                                  (XI (XI XH))))))) mm) (Zpos
                                              (XO (XO (XI (XI (XI XH))))))),
                                           r0)
                                    else if Z.eqb sg (Zpos (XI (XO (XI (XI
                                              (XO XH))))))
                                         then Some
                                                ((Z.opp
                                                   (Z.mul
                                                     (Z.add
                                                       (Z.mul hr (Zpos (XO
                                                         (XO (XI (XI (XI
                                                         XH))))))) mm) (Zpos
                                                     (XO (XO (XI (XI (XI
                                                     XH)))))))), r0)
                                         else None
                          else None))))))
      | _ ->
        (match r with
         | [] -> None
         | h1 :: l ->
           (match l with
            | [] -> None
            | h2 :: l0 ->
              (match l0 with
               | [] -> None
               | c :: l1 ->
                 (match l1 with
                  | [] -> None
                  | m1 :: l2 ->
                    (match l2 with
                     | [] -> None
                     | m2 :: r0 ->
                       if (&&)
                            ((&&)
                              ((&&)
                                ((&&)
                                  (Z.eqb c (Zpos (XO (XI (XO (XI (XI XH)))))))
                                  (isdig h1)) (isdig h2)) (isdig m1))
                            (isdig m2)
                       then let hr =
                              Z.add
                                (Z.mul
                                  (Z.sub h1 (Zpos (XO (XO (XO (XO (XI
                                    XH))))))) (Zpos (XO (XI (XO XH)))))
                                (Z.sub h2 (Zpos (XO (XO (XO (XO (XI XH)))))))
                            in
                            let mm =
                              Z.add
                                (Z.mul
                                  (Z.sub m1 (Zpos (XO (XO (XO (XO (XI
                                    XH))))))) (Zpos (XO (XI (XO XH)))))
                                (Z.sub m2 (Zpos (XO (XO (XO (XO (XI XH)))))))
                            in
                            if (||) (Z.gtb hr (Zpos (XO (XO (XO (XI XH))))))
                                 (Z.gtb mm (Zpos (XO (XO (XI (XI (XI XH)))))))
                            then None
                            else if Z.eqb sg (Zpos (XI (XI (XO (XI (XO
                                      XH))))))
                                 then Some
                                        ((Z.mul
                                           (Z.add
                                             (Z.mul hr (Zpos (XO (XO (XI (XI
                                               (XI XH))))))) mm) (Zpos (XO
                                           (XO (XI (XI (XI XH))))))), r0)
                                 else if Z.eqb sg (Zpos (XI (XO (XI (XI (XO
                                           XH))))))
                                      then Some
                                             ((Z.opp
                                                (Z.mul
                                                  (Z.add
                                                    (Z.mul hr (Zpos (XO (XO
                                                      (XI (XI (XI XH)))))))
                                                    mm) (Zpos (XO (XO (XI (XI
                                                  (XI XH)))))))), r0)
                                      else None
                       else None))))))
   | _ ->
     (match r with
      | [] -> None
      | h1 :: l ->
        (match l with
         | [] -> None
         | h2 :: l0 ->
           (match l0 with
            | [] -> None
            | c :: l1 ->
              (match l1 with
               | [] -> None
               | m1 :: l2 ->
                 (match l2 with
                  | [] -> None
                  | m2 :: r0 ->
                    if (&&)
                         ((&&)
                           ((&&)
                             ((&&)
                               (Z.eqb c (Zpos (XO (XI (XO (XI (XI XH)))))))
                               (isdig h1)) (isdig h2)) (isdig m1)) (isdig m2)
                    then let hr =
                           Z.add
                             (Z.mul
                               (Z.sub h1 (Zpos (XO (XO (XO (XO (XI XH)))))))
                               (Zpos (XO (XI (XO XH)))))
                             (Z.sub h2 (Zpos (XO (XO (XO (XO (XI XH)))))))
                         in
                         let mm =
                           Z.add
                             (Z.mul
                               (Z.sub m1 (Zpos (XO (XO (XO (XO (XI XH)))))))
                               (Zpos (XO (XI (XO XH)))))
                             (Z.sub m2 (Zpos (XO (XO (XO (XO (XI XH)))))))
                         in
                         if (||) (Z.gtb hr (Zpos (XO (XO (XO (XI XH))))))
                              (Z.gtb mm (Zpos (XO (XO (XI (XI (XI XH)))))))
                         then None
                         else if Z.eqb sg (Zpos (XI (XI (XO (XI (XO XH))))))
                              then Some
                                     ((Z.mul
                                        (Z.add
                                          (Z.mul hr (Zpos (XO (XO (XI (XI (XI
                                            XH))))))) mm) (Zpos (XO (XO (XI
                                        (XI (XI XH))))))), r0)
                              else if Z.eqb sg (Zpos (XI (XO (XI (XI (XO
                                        XH))))))
                                   then Some
                                          ((Z.opp
                                             (Z.mul
                                               (Z.add
                                                 (Z.mul hr (Zpos (XO (XO (XI
                                                   (XI (XI XH))))))) mm)
                                               (Zpos (XO (XO (XI (XI (XI
                                               XH)))))))), r0)
                                   else None
                    else None))))))

(** val time_parse_rfc3339 : bytes -> time_t option **)

let time_parse_rfc3339 v =
  match getyear v with
  | Some p ->
    let (year, v0) = p in
    (match lit (Zpos (XI (XO (XI (XI (XO XH)))))) v0 with
     | Some v1 ->
       (match getnum2 v1 with
        | Some p0 ->
          let (month, v2) = p0 in
          if (||) (Z.leb month Z0) (Z.ltb (Zpos (XO (XO (XI XH)))) month)
          then None
          else (match lit (Zpos (XI (XO (XI (XI (XO XH)))))) v2 with
                | Some v3 ->
                  (match getnum2 v3 with
                   | Some p1 ->
                     let (day, v4) = p1 in
                     (match lit (Zpos (XO (XO (XI (XO (XI (XO XH))))))) v4 with
                      | Some v5 ->
                        (match getnum12 v5 with
                         | Some p2 ->
                           let (hour, v6) = p2 in
                           if Z.leb (Zpos (XO (XO (XO (XI XH))))) hour
                           then None
                           else (match lit (Zpos (XO (XI (XO (XI (XI XH))))))
                                         v6 with
                                 | Some v7 ->
                                   (match getnum2 v7 with
                                    | Some p3 ->
                                      let (minute, v8) = p3 in
                                      if Z.leb (Zpos (XO (XO (XI (XI (XI
                                           XH)))))) minute
                                      then None
                                      else (match lit (Zpos (XO (XI (XO (XI
                                                    (XI XH)))))) v8 with
                                            | Some v9 ->
                                              (match getnum2 v9 with
                                               | Some p4 ->
                                                 let (sec, v10) = p4 in
                                                 if Z.leb (Zpos (XO (XO (XI
                                                      (XI (XI XH)))))) sec
                                                 then None
                                                 else let (nsec, v11) =
                                                        getfrac v10
                                                      in
                                                      (match getzone v11 with
                                                       | Some p5 ->
                                                         let (off, v12) = p5
                                                         in
                                                         (match v12 with
                                                          | [] ->
                                                            if (||)
                                                                 (Z.ltb day
                                                                   (Zpos XH))
                                                                 (Z.ltb
                                                                   (days_in
                                                                    month
                                                                    year) day)
                                                            then None
                                                            else Some
                                                                   ((
                                                                   (Z.sub
                                                                    (civil_seconds
                                                                    year
                                                                    month day
                                                                    hour
                                                                    minute
                                                                    sec) off),
                                                                   nsec), off)
                                                          | _ :: _ -> None)
                                                       | None -> None)
                                               | None -> None)
                                            | None -> None)
                                    | None -> None)
                                 | None -> None)
                         | None -> None)
                      | None -> None)
                   | None -> None)
                | None -> None)
        | None -> None)
     | None -> None)
  | None -> None

(** val time_parse : bytes -> bytes -> time_t * unit option **)

let time_parse layout value =
  if bytes_eqb layout rfc3339nano_layout
  then (match time_parse_rfc3339 value with
        | Some t -> (t, None)
        | None -> (time_zero, (Some ())))
  else (time_zero, (Some ()))

(** val iso8601_mask1 : z **)

let iso8601_mask1 =
  Zpos (XO (XO (XO (XO (XO (XO (XO (XO (XO (XO (XO (XO (XO (XO (XO (XO (XO
    (XO (XO (XO (XO (XO (XO (XO (XO (XO (XO (XO (XO (XO (XO (XO (XI (XO (XI
    (XI (XO (XI (XO (XO (XO (XO (XO (XO (XO (XO (XO (XO (XO (XO (XO (XO (XO
    (XO (XO (XO (XI (XO (XI (XI (XO
    XH)))))))))))))))))))))))))))))))))))))))))))))))))))))))))))))

(** val iso8601_mask2 : z **)

let iso8601_mask2 =
  Zpos (XO (XO (XO (XO (XO (XO (XO (XO (XO (XO (XO (XO (XO (XO (XO (XO (XO
    (XO (XI (XO (XI (XO (XI (XO (XO (XO (XO (XO (XO (XO (XO (XO (XO (XO (XO
    (XO (XO (XO (XO (XO (XO (XI (XO (XI (XI
    XH)))))))))))))))))))))))))))))))))))))))))))))

(** val iso8601_mask3 : z **)

let iso8601_mask3 =
  Zpos (XO (XI (XO (XI (XI (XI (XO (XO (XO (XO (XO (XO (XO (XO (XO (XO (XO
    (XO (XO (XO (XO (XO (XO (XO (XO (XI (XO (XI (XI (XO
    XH))))))))))))))))))))))))))))))

(** val iso8601_sep1 : z **)

let iso8601_sep1 =
  Zpos (XO (XO (XO (XO (XO (XO (XO (XO (XO (XO (XO (XO (XO (XO (XO (XO (XO
    (XO (XO (XO (XO (XO (XO (XO (XO (XO (XO (XO (XO (XO (XO (XO (XI (XI (XI
    (XI (XI (XI (XI (XI (XO (XO (XO (XO (XO (XO (XO (XO (XO (XO (XO (XO (XO
    (XO (XO (XO (XI (XI (XI (XI (XI (XI (XI
    XH)))))))))))))))))))))))))))))))))))))))))))))))))))))))))))))))

(** val iso8601_sep2 : z **)

let iso8601_sep2 =
  Zpos (XO (XO (XO (XO (XO (XO (XO (XO (XO (XO (XO (XO (XO (XO (XO (XO (XI
    (XI (XI (XI (XI (XI (XI (XI (XO (XO (XO (XO (XO (XO (XO (XO (XO (XO (XO
    (XO (XO (XO (XO (XO (XI (XI (XI (XI (XI (XI (XI
    XH)))))))))))))))))))))))))))))))))))))))))))))))

(** val iso8601_sep3 : z **)

let iso8601_sep3 =
  Zpos (XI (XI (XI (XI (XI (XI (XI (XI (XO (XO (XO (XO (XO (XO (XO (XO (XO
    (XO (XO (XO (XO (XO (XO (XO (XI (XI (XI (XI (XI (XI (XI
    XH)))))))))))))))))))))))))))))))

(** val iso8601_replace1 : z **)

let iso8601_replace1 =
  Zpos (XO (XO (XO (XO (XO (XO (XO (XO (XO (XO (XO (XO (XO (XO (XO (XO (XO
    (XO (XO (XO (XO (XO (XO (XO (XO (XO (XO (XO (XO (XO (XO (XO (XI (XO (XI
    (XI (XI (XO (XO (XO (XO (XO (XO (XO (XO (XO (XO (XO (XO (XO (XO (XO (XO
    (XO (XO (XO (XI (XO (XI (XI
    XH))))))))))))))))))))))))))))))))))))))))))))))))))))))))))))

(** val iso8601_replace2 : z **)

let iso8601_replace2 =
  Zpos (XO (XO (XO (XO (XO (XO (XO (XO (XO (XO (XO (XO (XO (XO (XO (XO (XO
    (XO (XI (XO (XO (XI (XI (XO (XO (XO (XO (XO (XO (XO (XO (XO (XO (XO (XO
    (XO (XO (XO (XO (XO (XO (XI (XO
    XH)))))))))))))))))))))))))))))))))))))))))))

(** val iso8601_replace3 : z **)

let iso8601_replace3 =
  Zpos (XO (XI (XO (XI (XO (XO (XO (XO (XO (XO (XO (XO (XO (XO (XO (XO (XO
    (XO (XO (XO (XO (XO (XO (XO (XO (XI (XO (XI (XO (XI (XI (XO (XO (XO (XO
    (XO (XI (XI (XO (XO (XO (XO (XO (XO (XI (XI (XO (XO (XO (XO (XO (XO (XI
    (XI (XO (XO (XO (XO (XO (XO (XI
    XH)))))))))))))))))))))))))))))))))))))))))))))))))))))))))))))

(** val iso8601_msb : z **)

let iso8601_msb =
  Zpos (XO (XO (XO (XO (XO (XO (XO (XI (XO (XO (XO (XO (XO (XO (XO (XI (XO
    (XO (XO (XO (XO (XO (XO (XI (XO (XO (XO (XO (XO (XO (XO (XI (XO (XO (XO
    (XO (XO (XO (XO (XI (XO (XO (XO (XO (XO (XO (XO (XI (XO (XO (XO (XO (XO
    (XO (XO (XI (XO (XO (XO (XO (XO (XO (XO
    XH)))))))))))))))))))))))))))))))))))))))))))))))))))))))))))))))

(** val iso8601_zero : z **)

let iso8601_zero =
  Zpos (XO (XO (XO (XO (XI (XI (XO (XO (XO (XO (XO (XO (XI (XI (XO (XO (XO
    (XO (XO (XO (XI (XI (XO (XO (XO (XO (XO (XO (XI (XI (XO (XO (XO (XO (XO
    (XO (XI (XI (XO (XO (XO (XO (XO (XO (XI (XI (XO (XO (XO (XO (XO (XO (XI
    (XI (XO (XO (XO (XO (XO (XO (XI
    XH)))))))))))))))))))))))))))))))))))))))))))))))))))))))))))))

(** val iso8601_nine : z **)

let iso8601_nine =
  Zpos (XI (XO (XO (XI (XI (XI (XO (XO (XI (XO (XO (XI (XI (XI (XO (XO (XI
    (XO (XO (XI (XI (XI (XO (XO (XI (XO (XO (XI (XI (XI (XO (XO (XI (XO (XO
    (XI (XI (XI (XO (XO (XI (XO (XO (XI (XI (XI (XO (XO (XI (XO (XO (XI (XI
    (XI (XO (XO (XI (XO (XO (XI (XI
    XH)))))))))))))))))))))))))))))))))))))))))))))))))))))))))))))

(** val iso8601_AllowSpaceSeparator : z **)

let iso8601_AllowSpaceSeparator =
  Zpos (XO XH)

(** val iso8601_AllowMissingTime : z **)

let iso8601_AllowMissingTime =
  Zpos (XO (XO XH))

(** val iso8601_AllowMissingSubsecond : z **)

let iso8601_AllowMissingSubsecond =
  Zpos (XO (XO (XO XH)))

(** val iso8601_AllowMissingTimezone : z **)

let iso8601_AllowMissingTimezone =
  Zpos (XO (XO (XO (XO XH))))

(** val iso8601_AllowNumericTimezone : z **)

let iso8601_AllowNumericTimezone =
  Zpos (XO (XO (XO (XO (XO XH)))))

type iso8601_error =
| Iso8601_errInvalidTimestamp
| Iso8601_errMonthOutOfRange
| Iso8601_errDayOutOfRange
| Iso8601_errHourOutOfRange
| Iso8601_errMinuteOutOfRange
| Iso8601_errSecondOutOfRange

(** val iso8601_pow10 : z list **)

let iso8601_pow10 =
  (Zpos XH) :: ((Zpos (XO (XI (XO XH)))) :: ((Zpos (XO (XO (XI (XO (XO (XI
    XH))))))) :: ((Zpos (XO (XO (XO (XI (XO (XI (XI (XI (XI
    XH)))))))))) :: ((Zpos (XO (XO (XO (XO (XI (XO (XO (XO (XI (XI (XI (XO
    (XO XH)))))))))))))) :: ((Zpos (XO (XO (XO (XO (XO (XI (XO (XI (XO (XI
    (XI (XO (XO (XO (XO (XI XH))))))))))))))))) :: ((Zpos (XO (XO (XO (XO (XO
    (XO (XI (XO (XO (XI (XO (XO (XO (XO (XI (XO (XI (XI (XI
    XH)))))))))))))))))))) :: ((Zpos (XO (XO (XO (XO (XO (XO (XO (XI (XO (XI
    (XI (XO (XI (XO (XO (XI (XO (XO (XO (XI (XI (XO (XO
    XH)))))))))))))))))))))))) :: ((Zpos (XO (XO (XO (XO (XO (XO (XO (XO (XI
    (XO (XO (XO (XO (XI (XI (XI (XI (XO (XI (XO (XI (XI (XI (XI (XI (XO
    XH))))))))))))))))))))))))))) :: []))))))))

(** val iso8601_isLeapYear : z -> bool **)

let iso8601_isLeapYear y =
  (&&) (Z.eqb (rem64 y (Zpos (XO (XO XH)))) Z0)
    ((||) (negb (Z.eqb (rem64 y (Zpos (XO (XO (XI (XO (XO (XI XH)))))))) Z0))
      (Z.eqb (rem64 y (Zpos (XO (XO (XO (XO (XI (XO (XO (XI XH)))))))))) Z0))

(** val iso8601_validate :
    z -> z -> z -> z -> z -> z -> iso8601_error option **)

let iso8601_validate year month day hour minute second =
  if (||) (Z.eqb day Z0) (Z.gtb day (Zpos (XI (XI (XI (XI XH))))))
  then Some Iso8601_errDayOutOfRange
  else if (||) (Z.eqb month Z0) (Z.gtb month (Zpos (XO (XO (XI XH)))))
       then Some Iso8601_errMonthOutOfRange
       else if Z.geb hour (Zpos (XO (XO (XO (XI XH)))))
            then Some Iso8601_errHourOutOfRange
            else if Z.geb minute (Zpos (XO (XO (XI (XI (XI XH))))))
                 then Some Iso8601_errMinuteOutOfRange
                 else if Z.geb second (Zpos (XO (XO (XI (XI (XI XH))))))
                      then Some Iso8601_errSecondOutOfRange
                      else if (&&) (Z.eqb month (Zpos (XO XH)))
                                ((||)
                                  (Z.gtb day (Zpos (XI (XO (XI (XI XH))))))
                                  ((&&)
                                    (Z.eqb day (Zpos (XI (XO (XI (XI XH))))))
                                    (negb (iso8601_isLeapYear year))))
                           then Some Iso8601_errDayOutOfRange
                           else let k1_ = fun _ -> None in
                                if Z.eqb day (Zpos (XI (XI (XI (XI XH)))))
                                then if (||)
                                          ((||)
                                            ((||)
                                              (Z.eqb month (Zpos (XO (XO
                                                XH))))
                                              (Z.eqb month (Zpos (XO (XI
                                                XH)))))
                                            (Z.eqb month (Zpos (XI (XO (XO
                                              XH))))))
                                          (Z.eqb month (Zpos (XI (XI (XO
                                            XH)))))
                                     then Some Iso8601_errDayOutOfRange
                                     else k1_ ()
                                else k1_ ()

(** val iso8601_match : z -> z -> z -> bool **)

let iso8601_match u sep mask0 =
  Z.eqb (and64 u sep) mask0

(** val iso8601_nonNumeric : z -> z **)

let iso8601_nonNumeric u =
  and64
    (or64
      (or64 (sub64 u iso8601_zero)
        (add64 u
          (sub64 (Zpos (XI (XI (XI (XI (XI (XI (XI (XO (XI (XI (XI (XI (XI
            (XI (XI (XO (XI (XI (XI (XI (XI (XI (XI (XO (XI (XI (XI (XI (XI
            (XI (XI (XO (XI (XI (XI (XI (XI (XI (XI (XO (XI (XI (XI (XI (XI
            (XI (XI (XO (XI (XI (XI (XI (XI (XI (XI (XO (XI (XI (XI (XI (XI
            (XI
            XH)))))))))))))))))))))))))))))))))))))))))))))))))))))))))))))))
            iso8601_nine))) u) iso8601_msb

(** val iso8601_daysSinceEpoch : z -> z -> z -> z **)

let iso8601_daysSinceEpoch year month day =
  let monthAdjusted = sub64 month (Zpos (XI XH)) in
  let carry = Z0 in
  let k2_ = fun carry0 ->
    let adjust = Z0 in
    let k1_ = fun adjust0 ->
      let yearAdjusted =
        sub64
          (add64 year (Zpos (XO (XO (XO (XO (XO (XO (XI (XI (XO (XI (XO (XO
            XH)))))))))))))) carry0
      in
      let monthDays =
        div64
          (add64
            (mul64 (add64 monthAdjusted adjust0) (Zpos (XI (XI (XI (XI (XI
              (XI (XI (XI (XO (XO (XI (XO (XI (XI (XI XH)))))))))))))))))
            (Zpos (XI (XO (XO (XO (XO (XO (XO (XO (XI XH))))))))))) (Zpos (XO
          (XO (XO (XO (XO (XO (XO (XO (XO (XO (XO XH))))))))))))
      in
      let leapDays =
        add64
          (sub64 (div64 yearAdjusted (Zpos (XO (XO XH))))
            (div64 yearAdjusted (Zpos (XO (XO (XI (XO (XO (XI XH)))))))))
          (div64 yearAdjusted (Zpos (XO (XO (XO (XO (XI (XO (XO (XI
            XH))))))))))
      in
      sub64
        (add64
          (add64
            (add64
              (mul64 yearAdjusted (Zpos (XI (XO (XI (XI (XO (XI (XI (XO
                XH)))))))))) leapDays) monthDays) (sub64 day (Zpos XH)))
        (Zpos (XO (XO (XO (XI (XI (XI (XO (XI (XO (XI (XO (XI (XI (XI (XO (XI
        (XI (XO (XI (XO (XO XH))))))))))))))))))))))
    in
    if Z.eqb carry0 (Zpos XH)
    then let adjust0 = Zpos (XO (XO (XI XH))) in k1_ adjust0
    else k1_ adjust
  in
  if Z.gtb monthAdjusted month
  then let carry0 = Zpos XH in k2_ carry0
  else k2_ carry

(** val iso8601_isDigit : z -> bool **)

let iso8601_isDigit c =
  (&&) (Z.leb (Zpos (XO (XO (XO (XO (XI XH)))))) c)
    (Z.leb c (Zpos (XI (XO (XO (XI (XI XH)))))))

(** val iso8601_readByte : bytes -> z -> bytes * bool **)

let iso8601_readByte value c =
  if Z.eqb (len value) Z0
  then (value, false)
  else if negb (Z.eqb (at_ value Z0) c)
       then (value, false)
       else ((slice_from value (Zpos XH)), true)

(** val iso8601_readDigits :
    nat -> bytes -> z -> z -> (bytes * bool) option **)

let iso8601_readDigits fuel value min0 max0 =
  if Z.ltb (len value) min0
  then Some (value, false)
  else let i = Z0 in
       let k1_ = fun i0 ->
         if (&&) (Z.ltb i0 max0) (Z.ltb i0 min0)
         then Some (value, false)
         else Some ((slice_from value i0), true)
       in
       let rec loop2_ f3_ i0 =
         match f3_ with
         | O -> None
         | S f4_ ->
           if (&&) ((&&) (Z.ltb i0 max0) (Z.ltb i0 (len value)))
                (iso8601_isDigit (at_ value i0))
           then let i1 = addi64 i0 (Zpos XH) in loop2_ f4_ i1
           else k1_ i0
       in loop2_ fuel i

(** val iso8601_Valid : nat -> bytes -> z -> bool option **)

let iso8601_Valid fuel value flags =
  obind
    (iso8601_readDigits fuel value (Zpos (XO (XO XH))) (Zpos (XO (XO XH))))
    (fun pat ->
    let (value0, ok) = pat in
    if negb ok
    then Some false
    else let (value1, ok0) =
           iso8601_readByte value0 (Zpos (XI (XO (XI (XI (XO XH))))))
         in
         if negb ok0
         then Some false
         else obind
                (iso8601_readDigits fuel value1 (Zpos (XO XH)) (Zpos (XO XH)))
                (fun pat0 ->
                let (value2, ok1) = pat0 in
                if negb ok1
                then Some false
                else let (value3, ok2) =
                       iso8601_readByte value2 (Zpos (XI (XO (XI (XI (XO
                         XH))))))
                     in
                     if negb ok2
                     then Some false
                     else obind
                            (iso8601_readDigits fuel value3 (Zpos (XO XH))
                              (Zpos (XO XH))) (fun pat1 ->
                            let (value4, ok3) = pat1 in
                            if negb ok3
                            then Some false
                            else if (&&) (Z.eqb (len value4) Z0)
                                      (negb
                                        (Z.eqb
                                          (andi64 flags
                                            iso8601_AllowMissingTime) Z0))
                                 then Some true
                                 else let k5_ = fun value5 _ ->
                                        obind
                                          (iso8601_readDigits fuel value5
                                            (Zpos (XO XH)) (Zpos (XO XH)))
                                          (fun pat2 ->
                                          let (value6, ok4) = pat2 in
                                          if negb ok4
                                          then Some false
                                          else let (value7, ok5) =
                                                 iso8601_readByte value6
                                                   (Zpos (XO (XI (XO (XI (XI
                                                   XH))))))
                                               in
                                               if negb ok5
                                               then Some false
                                               else obind
                                                      (iso8601_readDigits
                                                        fuel value7 (Zpos (XO
                                                        XH)) (Zpos (XO XH)))
                                                      (fun pat3 ->
                                                      let (value8, ok6) = pat3
                                                      in
                                                      if negb ok6
                                                      then Some false
                                                      else let (value9, ok7) =
                                                             iso8601_readByte
                                                               value8 (Zpos
                                                               (XO (XI (XO
                                                               (XI (XI
                                                               XH))))))
                                                           in
                                                           if negb ok7
                                                           then Some false
                                                           else obind
                                                                  (iso8601_readDigits
                                                                    fuel
                                                                    value9
                                                                    (Zpos (XO
                                                                    XH))
                                                                    (Zpos (XO
                                                                    XH)))
                                                                  (fun pat4 ->
                                                                  let (
                                                                    value10,
                                                                    ok8) =
                                                                    pat4
                                                                  in
                                                                  if negb ok8
                                                                  then 
                                                                    Some false
                                                                  else 
                                                                    let k4_ =
                                                                    fun value11 _ ->
                                                                    if 
                                                                    (&&)
                                                                    (Z.eqb
                                                                    (len
                                                                    value11)
                                                                    Z0)
                                                                    (negb
                                                                    (Z.eqb
                                                                    (andi64
                                                                    flags
                                                                    iso8601_AllowMissingTimezone)
                                                                    Z0))
                                                                    then 
                                                                    Some true
                                                                    else 
                                                                    let (
                                                                    value12,
                                                                    ok9) =
                                                                    iso8601_readByte
                                                                    value11
                                                                    (Zpos (XO
                                                                    (XI (XO
                                                                    (XI (XI
                                                                    (XO
                                                                    XH)))))))
                                                                    in
                                                                    if ok9
                                                                    then 
                                                                    Some
                                                                    (Z.eqb
                                                                    (len
                                                                    value12)
                                                                    Z0)
                                                                    else 
                                                                    let k3_ =
                                                                    fun value13 ->
                                                                    let k2_ =
                                                                    fun value14 _ ->
                                                                    obind
                                                                    (iso8601_readDigits
                                                                    fuel
                                                                    value14
                                                                    (Zpos (XO
                                                                    XH))
                                                                    (Zpos (XO
                                                                    XH)))
                                                                    (fun pat5 ->
                                                                    let (
                                                                    value15,
                                                                    ok10) =
                                                                    pat5
                                                                    in
                                                                    if 
                                                                    negb ok10
                                                                    then 
                                                                    Some false
                                                                    else 
                                                                    let k1_ =
                                                                    fun value16 _ ->
                                                                    obind
                                                                    (iso8601_readDigits
                                                                    fuel
                                                                    value16
                                                                    (Zpos (XO
                                                                    XH))
                                                                    (Zpos (XO
                                                                    XH)))
                                                                    (fun pat6 ->
                                                                    let (
                                                                    value17,
                                                                    ok11) =
                                                                    pat6
                                                                    in
                                                                    if 
                                                                    negb ok11
                                                                    then 
                                                                    Some false
                                                                    else 
                                                                    Some
                                                                    (Z.eqb
                                                                    (len
                                                                    value17)
                                                                    Z0))
                                                                    in
                                                                    let (
                                                                    value16,
                                                                    ok11) =
                                                                    iso8601_readByte
                                                                    value15
                                                                    (Zpos (XO
                                                                    (XI (XO
                                                                    (XI (XI
                                                                    XH))))))
                                                                    in
                                                                    if 
                                                                    negb ok11
                                                                    then 
                                                                    if 
                                                                    Z.eqb
                                                                    (andi64
                                                                    flags
                                                                    iso8601_AllowNumericTimezone)
                                                                    Z0
                                                                    then 
                                                                    Some false
                                                                    else 
                                                                    k1_
                                                                    value16
                                                                    ok11
                                                                    else 
                                                                    k1_
                                                                    value16
                                                                    ok11)
                                                                    in
                                                                    let (
                                                                    value14,
                                                                    ok10) =
                                                                    iso8601_readByte
                                                                    value13
                                                                    (Zpos (XI
                                                                    (XI (XO
                                                                    (XI (XO
                                                                    XH))))))
                                                                    in
                                                                    if 
                                                                    negb ok10
                                                                    then 
                                                                    let (
                                                                    value15,
                                                                    ok11) =
                                                                    iso8601_readByte
                                                                    value14
                                                                    (Zpos (XI
                                                                    (XO (XI
                                                                    (XI (XO
                                                                    XH))))))
                                                                    in
                                                                    if 
                                                                    negb ok11
                                                                    then 
                                                                    Some false
                                                                    else 
                                                                    k2_
                                                                    value15
                                                                    ok11
                                                                    else 
                                                                    k2_
                                                                    value14
                                                                    ok10
                                                                    in
                                                                    if 
                                                                    negb
                                                                    (Z.eqb
                                                                    (andi64
                                                                    flags
                                                                    iso8601_AllowSpaceSeparator)
                                                                    Z0)
                                                                    then 
                                                                    let (
                                                                    value13, _) =
                                                                    iso8601_readByte
                                                                    value12
                                                                    (Zpos (XO
                                                                    (XO (XO
                                                                    (XO (XO
                                                                    XH))))))
                                                                    in
                                                                    k3_
                                                                    value13
                                                                    else 
                                                                    k3_
                                                                    value12
                                                                    in
                                                                    let (
                                                                    value11,
                                                                    ok9) =
                                                                    iso8601_readByte
                                                                    value10
                                                                    (Zpos (XO
                                                                    (XI (XI
                                                                    (XI (XO
                                                                    XH))))))
                                                                    in
                                                                    if 
                                                                    negb ok9
                                                                    then 
                                                                    if 
                                                                    Z.eqb
                                                                    (andi64
                                                                    flags
                                                                    iso8601_AllowMissingSubsecond)
                                                                    Z0
                                                                    then 
                                                                    Some false
                                                                    else 
                                                                    k4_
                                                                    value11
                                                                    ok9
                                                                    else 
                                                                    obind
                                                                    (iso8601_readDigits
                                                                    fuel
                                                                    value11
                                                                    (Zpos XH)
                                                                    (Zpos (XI
                                                                    (XO (XO
                                                                    XH)))))
                                                                    (fun pat5 ->
                                                                    let (
                                                                    value12,
                                                                    ok10) =
                                                                    pat5
                                                                    in
                                                                    if 
                                                                    negb ok10
                                                                    then 
                                                                    Some false
                                                                    else 
                                                                    k4_
                                                                    value12
                                                                    ok10))))
                                      in
                                      let (value5, ok4) =
                                        iso8601_readByte value4 (Zpos (XO (XO
                                          (XI (XO (XI (XO XH)))))))
                                      in
                                      if negb ok4
                                      then if Z.eqb
                                                (andi64 flags
                                                  iso8601_AllowSpaceSeparator)
                                                Z0
                                           then Some false
                                           else let (value6, ok5) =
                                                  iso8601_readByte value5
                                                    (Zpos (XO (XO (XO (XO (XO
                                                    XH))))))
                                                in
                                                if negb ok5
                                                then Some false
                                                else k5_ value6 ok5
                                      else k5_ value5 ok4)))

(** val iso8601_Parse : bytes -> time_t * iso8601_error option **)

let iso8601_Parse input =
  let k1_ = fun _ ->
    let (t, err) =
      time_parse ((Zpos (XO (XI (XO (XO (XI XH)))))) :: ((Zpos (XO (XO (XO
        (XO (XI XH)))))) :: ((Zpos (XO (XO (XO (XO (XI XH)))))) :: ((Zpos (XO
        (XI (XI (XO (XI XH)))))) :: ((Zpos (XI (XO (XI (XI (XO
        XH)))))) :: ((Zpos (XO (XO (XO (XO (XI XH)))))) :: ((Zpos (XI (XO (XO
        (XO (XI XH)))))) :: ((Zpos (XI (XO (XI (XI (XO XH)))))) :: ((Zpos (XO
        (XO (XO (XO (XI XH)))))) :: ((Zpos (XO (XI (XO (XO (XI
        XH)))))) :: ((Zpos (XO (XO (XI (XO (XI (XO XH))))))) :: ((Zpos (XI
        (XO (XO (XO (XI XH)))))) :: ((Zpos (XI (XO (XI (XO (XI
        XH)))))) :: ((Zpos (XO (XI (XO (XI (XI XH)))))) :: ((Zpos (XO (XO (XO
        (XO (XI XH)))))) :: ((Zpos (XO (XO (XI (XO (XI XH)))))) :: ((Zpos (XO
        (XI (XO (XI (XI XH)))))) :: ((Zpos (XO (XO (XO (XO (XI
        XH)))))) :: ((Zpos (XI (XO (XI (XO (XI XH)))))) :: ((Zpos (XO (XI (XI
        (XI (XO XH)))))) :: ((Zpos (XI (XO (XO (XI (XI XH)))))) :: ((Zpos (XI
        (XO (XO (XI (XI XH)))))) :: ((Zpos (XI (XO (XO (XI (XI
        XH)))))) :: ((Zpos (XI (XO (XO (XI (XI XH)))))) :: ((Zpos (XI (XO (XO
        (XI (XI XH)))))) :: ((Zpos (XI (XO (XO (XI (XI XH)))))) :: ((Zpos (XI
        (XO (XO (XI (XI XH)))))) :: ((Zpos (XI (XO (XO (XI (XI
        XH)))))) :: ((Zpos (XI (XO (XO (XI (XI XH)))))) :: ((Zpos (XO (XI (XO
        (XI (XI (XO XH))))))) :: ((Zpos (XO (XO (XO (XO (XI
        XH)))))) :: ((Zpos (XI (XI (XI (XO (XI XH)))))) :: ((Zpos (XO (XI (XO
        (XI (XI XH)))))) :: ((Zpos (XO (XO (XO (XO (XI XH)))))) :: ((Zpos (XO
        (XO (XO (XO (XI XH)))))) :: [])))))))))))))))))))))))))))))))))))
        input
    in
    if negb (isnil err)
    then (time_zero, (Some Iso8601_errInvalidTimestamp))
    else (t, None)
  in
  let b = id (Obj.magic input) in
  if (&&)
       ((&&) (Z.geb (len (Obj.magic b)) (Zpos (XO (XO (XI (XO XH))))))
         (Z.leb (len (Obj.magic b)) (Zpos (XO (XI (XI (XI XH)))))))
       (Z.eqb (at_ (Obj.magic b) (subi64 (len (Obj.magic b)) (Zpos XH)))
         (Zpos (XO (XI (XO (XI (XI (XO XH))))))))
  then if (||) (Z.eqb (len (Obj.magic b)) (Zpos (XI (XO (XI (XO XH))))))
            ((&&) (Z.gtb (len (Obj.magic b)) (Zpos (XI (XO (XI (XO XH))))))
              (negb
                (Z.eqb (at_ (Obj.magic b) (Zpos (XI (XI (XO (XO XH))))))
                  (Zpos (XO (XI (XI (XI (XO XH)))))))))
       then k1_ b
       else let t1 = le64 (Obj.magic b) in
            let t2 =
              le64
                (slice (Obj.magic b) (Zpos (XO (XO (XO XH)))) (Zpos (XO (XO
                  (XO (XO XH))))))
            in
            let t3 =
              or64
                (or64
                  (or64 (at_ (Obj.magic b) (Zpos (XO (XO (XO (XO XH))))))
                    (shl64 (at_ (Obj.magic b) (Zpos (XI (XO (XO (XO XH))))))
                      (Zpos (XO (XO (XO XH))))))
                  (shl64 (at_ (Obj.magic b) (Zpos (XO (XI (XO (XO XH))))))
                    (Zpos (XO (XO (XO (XO XH))))))) (Zpos (XO (XO (XO (XO (XO
                (XO (XO (XO (XO (XO (XO (XO (XO (XO (XO (XO (XO (XO (XO (XO
                (XO (XO (XO (XO (XO (XI (XO (XI (XI (XO
                XH)))))))))))))))))))))))))))))))
            in
            if (||)
                 ((||) (negb (iso8601_match t1 iso8601_sep1 iso8601_mask1))
                   (negb (iso8601_match t2 iso8601_sep2 iso8601_mask2)))
                 (negb (iso8601_match t3 iso8601_sep3 iso8601_mask3))
            then k1_ b
            else let t4 = xor64 t1 iso8601_replace1 in
                 let t5 = xor64 t2 iso8601_replace2 in
                 let t6 = xor64 t3 iso8601_replace3 in
                 if negb
                      (Z.eqb
                        (or64
                          (or64 (iso8601_nonNumeric t4)
                            (iso8601_nonNumeric t5)) (iso8601_nonNumeric t6))
                        Z0)
                 then k1_ b
                 else let t7 = sub64 t4 iso8601_zero in
                      let t8 = sub64 t5 iso8601_zero in
                      let t9 = sub64 t6 iso8601_zero in
                      let year =
                        add64
                          (add64
                            (add64
                              (mul64 (and64 t7 (Zpos (XI (XI (XI XH)))))
                                (Zpos (XO (XO (XO (XI (XO (XI (XI (XI (XI
                                XH)))))))))))
                              (mul64
                                (and64 (shr64 t7 (Zpos (XO (XO (XO XH)))))
                                  (Zpos (XI (XI (XI XH))))) (Zpos (XO (XO (XI
                                (XO (XO (XI XH)))))))))
                            (mul64
                              (and64 (shr64 t7 (Zpos (XO (XO (XO (XO XH))))))
                                (Zpos (XI (XI (XI XH))))) (Zpos (XO (XI (XO
                              XH))))))
                          (and64 (shr64 t7 (Zpos (XO (XO (XO (XI XH))))))
                            (Zpos (XI (XI (XI XH)))))
                      in
                      let month =
                        add64
                          (mul64
                            (and64
                              (shr64 t7 (Zpos (XO (XO (XO (XI (XO XH)))))))
                              (Zpos (XI (XI (XI XH))))) (Zpos (XO (XI (XO
                            XH)))))
                          (and64
                            (shr64 t7 (Zpos (XO (XO (XO (XO (XI XH)))))))
                            (Zpos (XI (XI (XI XH)))))
                      in
                      let day =
                        add64
                          (mul64 (and64 t8 (Zpos (XI (XI (XI XH))))) (Zpos
                            (XO (XI (XO XH)))))
                          (and64 (shr64 t8 (Zpos (XO (XO (XO XH))))) (Zpos
                            (XI (XI (XI XH)))))
                      in
                      let hour =
                        add64
                          (mul64
                            (and64 (shr64 t8 (Zpos (XO (XO (XO (XI XH))))))
                              (Zpos (XI (XI (XI XH))))) (Zpos (XO (XI (XO
                            XH)))))
                          (and64
                            (shr64 t8 (Zpos (XO (XO (XO (XO (XO XH)))))))
                            (Zpos (XI (XI (XI XH)))))
                      in
                      let minute =
                        add64
                          (mul64
                            (and64
                              (shr64 t8 (Zpos (XO (XO (XO (XO (XI XH)))))))
                              (Zpos (XI (XI (XI XH))))) (Zpos (XO (XI (XO
                            XH)))))
                          (shr64 t8 (Zpos (XO (XO (XO (XI (XI XH)))))))
                      in
                      let second =
                        add64
                          (mul64
                            (and64 (shr64 t9 (Zpos (XO (XO (XO XH))))) (Zpos
                              (XI (XI (XI XH))))) (Zpos (XO (XI (XO XH)))))
                          (shr64 t9 (Zpos (XO (XO (XO (XO XH))))))
                      in
                      let nanos = Z0 in
                      let k2_ = fun nanos0 ->
                        let err_1 =
                          iso8601_validate year month day hour minute second
                        in
                        if negb (isnil err_1)
                        then (time_zero, err_1)
                        else let unixSeconds =
                               addi64
                                 (muli64
                                   (s64
                                     (iso8601_daysSinceEpoch year month day))
                                   (Zpos (XO (XO (XO (XO (XO (XO (XO (XI (XI
                                   (XO (XO (XO (XI (XO (XI (XO
                                   XH))))))))))))))))))
                                 (s64
                                   (add64
                                     (add64
                                       (mul64 hour (Zpos (XO (XO (XO (XO (XI
                                         (XO (XO (XO (XO (XI (XI
                                         XH)))))))))))))
                                       (mul64 minute (Zpos (XO (XO (XI (XI
                                         (XI XH)))))))) second))
                             in
                             ((time_unix_utc unixSeconds nanos0), None)
                      in
                      if Z.gtb (len (Obj.magic b)) (Zpos (XO (XO (XI (XO
                           XH)))))
                      then let k3_ = fun nanos0 ->
                             let nanos1 =
                               muli64 nanos0
                                 (nth
                                   (Z.to_nat
                                     (subi64 (Zpos (XO (XI (XI (XI XH)))))
                                       (len (Obj.magic b)))) iso8601_pow10 Z0)
                             in
                             k2_ nanos1
                           in
                           let rec loop4_ l5_ i6_ nanos0 =
                             match l5_ with
                             | [] -> k3_ nanos0
                             | h7_ :: t8_ ->
                               if (||)
                                    (Z.ltb h7_ (Zpos (XO (XO (XO (XO (XI
                                      XH)))))))
                                    (Z.gtb h7_ (Zpos (XI (XO (XO (XI (XI
                                      XH)))))))
                               then k1_ b
                               else let nanos1 =
                                      addi64
                                        (muli64 nanos0 (Zpos (XO (XI (XO
                                          XH)))))
                                        (sub8 h7_ (Zpos (XO (XO (XO (XO (XI
                                          XH)))))))
                                    in
                                    loop4_ t8_ (Z.add i6_ (Zpos XH)) nanos1
                           in loop4_
                                (slice (Obj.magic b) (Zpos (XO (XO (XI (XO
                                  XH)))))
                                  (subi64 (len (Obj.magic b)) (Zpos XH))) Z0
                                nanos
                      else k2_ nanos
  else k1_ b

(** val has_flag : z -> z -> bool **)

let has_flag flags f =
  negb (Z.eqb (Z.coq_land flags f) Z0)

(** val date_ok : bytes -> bool **)

let date_ok = function
| [] -> false
| a :: l ->
  (match l with
   | [] -> false
   | b :: l0 ->
     (match l0 with
      | [] -> false
      | c :: l1 ->
        (match l1 with
         | [] -> false
         | d :: l2 ->
           (match l2 with
            | [] -> false
            | z0 :: l3 ->
              (match z0 with
               | Zpos p ->
                 (match p with
                  | XI p0 ->
                    (match p0 with
                     | XO p1 ->
                       (match p1 with
                        | XI p2 ->
                          (match p2 with
                           | XI p3 ->
                             (match p3 with
                              | XO p4 ->
                                (match p4 with
                                 | XH ->
                                   (match l3 with
                                    | [] -> false
                                    | e :: l4 ->
                                      (match l4 with
                                       | [] -> false
                                       | f :: l5 ->
                                         (match l5 with
                                          | [] -> false
                                          | z1 :: l6 ->
                                            (match z1 with
                                             | Zpos p5 ->
                                               (match p5 with
                                                | XI p6 ->
                                                  (match p6 with
                                                   | XO p7 ->
                                                     (match p7 with
                                                      | XI p8 ->
                                                        (match p8 with
                                                         | XI p9 ->
                                                           (match p9 with
                                                            | XO p10 ->
                                                              (match p10 with
                                                               | XH ->
                                                                 (match l6 with
                                                                  | [] ->
                                                                    false
                                                                  | g :: l7 ->
                                                                    (match l7 with
                                                                    | [] ->
                                                                    false
                                                                    | h :: l8 ->
                                                                    (match l8 with
                                                                    | [] ->
                                                                    (&&)
                                                                    ((&&)
                                                                    ((&&)
                                                                    ((&&)
                                                                    ((&&)
                                                                    ((&&)
                                                                    ((&&)
                                                                    (isdig a)
                                                                    (isdig b))
                                                                    (isdig c))
                                                                    (isdig d))
                                                                    (isdig e))
                                                                    (isdig f))
                                                                    (isdig g))
                                                                    (isdig h)
                                                                    | _ :: _ ->
                                                                    false)))
                                                               | _ -> false)
                                                            | _ -> false)
                                                         | _ -> false)
                                                      | _ -> false)
                                                   | _ -> false)
                                                | _ -> false)
                                             | _ -> false))))
                                 | _ -> false)
                              | _ -> false)
                           | _ -> false)
                        | _ -> false)
                     | _ -> false)
                  | _ -> false)
               | _ -> false)))))

(** val time_ok : bytes -> bool **)

let time_ok = function
| [] -> false
| a :: l ->
  (match l with
   | [] -> false
   | b :: l0 ->
     (match l0 with
      | [] -> false
      | z0 :: l1 ->
        (match z0 with
         | Zpos p ->
           (match p with
            | XO p0 ->
              (match p0 with
               | XI p1 ->
                 (match p1 with
                  | XO p2 ->
                    (match p2 with
                     | XI p3 ->
                       (match p3 with
                        | XI p4 ->
                          (match p4 with
                           | XH ->
                             (match l1 with
                              | [] -> false
                              | c :: l2 ->
                                (match l2 with
                                 | [] -> false
                                 | d :: l3 ->
                                   (match l3 with
                                    | [] -> false
                                    | z1 :: l4 ->
                                      (match z1 with
                                       | Zpos p5 ->
                                         (match p5 with
                                          | XO p6 ->
                                            (match p6 with
                                             | XI p7 ->
                                               (match p7 with
                                                | XO p8 ->
                                                  (match p8 with
                                                   | XI p9 ->
                                                     (match p9 with
                                                      | XI p10 ->
                                                        (match p10 with
                                                         | XH ->
                                                           (match l4 with
                                                            | [] -> false
                                                            | e :: l5 ->
                                                              (match l5 with
                                                               | [] -> false
                                                               | f :: l6 ->
                                                                 (match l6 with
                                                                  | [] ->
                                                                    (&&)
                                                                    ((&&)
                                                                    ((&&)
                                                                    ((&&)
                                                                    ((&&)
                                                                    (isdig a)
                                                                    (isdig b))
                                                                    (isdig c))
                                                                    (isdig d))
                                                                    (isdig e))
                                                                    (isdig f)
                                                                  | _ :: _ ->
                                                                    false)))
                                                         | _ -> false)
                                                      | _ -> false)
                                                   | _ -> false)
                                                | _ -> false)
                                             | _ -> false)
                                          | _ -> false)
                                       | _ -> false))))
                           | _ -> false)
                        | _ -> false)
                     | _ -> false)
                  | _ -> false)
               | _ -> false)
            | _ -> false)
         | _ -> false)))

(** val sign_ok : z -> bool **)

let sign_ok c =
  (||) (Z.eqb c (Zpos (XI (XI (XO (XI (XO XH)))))))
    (Z.eqb c (Zpos (XI (XO (XI (XI (XO XH)))))))

(** val numzone_ok : z -> bytes -> bool **)

let numzone_ok flags = function
| [] -> false
| sg :: l ->
  (match l with
   | [] -> false
   | a :: l0 ->
     (match l0 with
      | [] -> false
      | b :: l1 ->
        (match l1 with
         | [] -> false
         | c :: l2 ->
           (match c with
            | Zpos p ->
              (match p with
               | XO p0 ->
                 (match p0 with
                  | XI p1 ->
                    (match p1 with
                     | XO p2 ->
                       (match p2 with
                        | XI p3 ->
                          (match p3 with
                           | XI p4 ->
                             (match p4 with
                              | XH ->
                                (match l2 with
                                 | [] -> false
                                 | d :: l3 ->
                                   (match l3 with
                                    | [] ->
                                      (&&)
                                        ((&&)
                                          ((&&)
                                            ((&&)
                                              ((&&)
                                                (has_flag flags
                                                  iso8601_AllowNumericTimezone)
                                                (sign_ok sg)) (isdig a))
                                            (isdig b)) (isdig c)) (isdig d)
                                    | d0 :: l4 ->
                                      (match l4 with
                                       | [] ->
                                         (&&)
                                           ((&&)
                                             ((&&)
                                               ((&&) (sign_ok sg) (isdig a))
                                               (isdig b)) (isdig d))
                                           (isdig d0)
                                       | _ :: _ -> false)))
                              | _ ->
                                (match l2 with
                                 | [] -> false
                                 | d :: l3 ->
                                   (match l3 with
                                    | [] ->
                                      (&&)
                                        ((&&)
                                          ((&&)
                                            ((&&)
                                              ((&&)
                                                (has_flag flags
                                                  iso8601_AllowNumericTimezone)
                                                (sign_ok sg)) (isdig a))
                                            (isdig b)) (isdig c)) (isdig d)
                                    | _ :: _ -> false)))
                           | _ ->
                             (match l2 with
                              | [] -> false
                              | d :: l3 ->
                                (match l3 with
                                 | [] ->
                                   (&&)
                                     ((&&)
                                       ((&&)
                                         ((&&)
                                           ((&&)
                                             (has_flag flags
                                               iso8601_AllowNumericTimezone)
                                             (sign_ok sg)) (isdig a))
                                         (isdig b)) (isdig c)) (isdig d)
                                 | _ :: _ -> false)))
                        | _ ->
                          (match l2 with
                           | [] -> false
                           | d :: l3 ->
                             (match l3 with
                              | [] ->
                                (&&)
                                  ((&&)
                                    ((&&)
                                      ((&&)
                                        ((&&)
                                          (has_flag flags
                                            iso8601_AllowNumericTimezone)
                                          (sign_ok sg)) (isdig a)) (isdig b))
                                    (isdig c)) (isdig d)
                              | _ :: _ -> false)))
                     | _ ->
                       (match l2 with
                        | [] -> false
                        | d :: l3 ->
                          (match l3 with
                           | [] ->
                             (&&)
                               ((&&)
                                 ((&&)
                                   ((&&)
                                     ((&&)
                                       (has_flag flags
                                         iso8601_AllowNumericTimezone)
                                       (sign_ok sg)) (isdig a)) (isdig b))
                                 (isdig c)) (isdig d)
                           | _ :: _ -> false)))
                  | _ ->
                    (match l2 with
                     | [] -> false
                     | d :: l3 ->
                       (match l3 with
                        | [] ->
                          (&&)
                            ((&&)
                              ((&&)
                                ((&&)
                                  ((&&)
                                    (has_flag flags
                                      iso8601_AllowNumericTimezone)
                                    (sign_ok sg)) (isdig a)) (isdig b))
                              (isdig c)) (isdig d)
                        | _ :: _ -> false)))
               | _ ->
                 (match l2 with
                  | [] -> false
                  | d :: l3 ->
                    (match l3 with
                     | [] ->
                       (&&)
                         ((&&)
                           ((&&)
                             ((&&)
                               ((&&)
                                 (has_flag flags iso8601_AllowNumericTimezone)
                                 (sign_ok sg)) (isdig a)) (isdig b))
                           (isdig c)) (isdig d)
                     | _ :: _ -> false)))
            | _ ->
              (match l2 with
               | [] -> false
               | d :: l3 ->
                 (match l3 with
                  | [] ->
                    (&&)
                      ((&&)
                        ((&&)
                          ((&&)
                            ((&&)
                              (has_flag flags iso8601_AllowNumericTimezone)
                              (sign_ok sg)) (isdig a)) (isdig b)) (isdig c))
                      (isdig d)
                  | _ :: _ -> false))))))

(** val zone_ok : z -> bytes -> bool **)

let zone_ok flags s = match s with
| [] -> has_flag flags iso8601_AllowMissingTimezone
| z0 :: s' ->
  (match z0 with
   | Zpos p ->
     (match p with
      | XO p0 ->
        (match p0 with
         | XI p1 ->
           (match p1 with
            | XO p2 ->
              (match p2 with
               | XI p3 ->
                 (match p3 with
                  | XI p4 ->
                    (match p4 with
                     | XO p5 ->
                       (match p5 with
                        | XH ->
                          (match s' with
                           | [] -> true
                           | _ :: _ -> numzone_ok flags s)
                        | _ -> numzone_ok flags s)
                     | _ -> numzone_ok flags s)
                  | _ -> numzone_ok flags s)
               | _ -> numzone_ok flags s)
            | _ -> numzone_ok flags s)
         | XO p1 ->
           (match p1 with
            | XO p2 ->
              (match p2 with
               | XO p3 ->
                 (match p3 with
                  | XO p4 ->
                    (match p4 with
                     | XH ->
                       (&&) (has_flag flags iso8601_AllowSpaceSeparator)
                         (numzone_ok flags s')
                     | _ -> numzone_ok flags s)
                  | _ -> numzone_ok flags s)
               | _ -> numzone_ok flags s)
            | _ -> numzone_ok flags s)
         | XH -> numzone_ok flags s)
      | _ -> numzone_ok flags s)
   | _ -> numzone_ok flags s)

(** val frac_zone_ok : z -> bytes -> bool **)

let frac_zone_ok flags s =
  (||)
    ((&&) (has_flag flags iso8601_AllowMissingSubsecond) (zone_ok flags s))
    (match s with
     | [] -> false
     | z0 :: s' ->
       (match z0 with
        | Zpos p ->
          (match p with
           | XO p0 ->
             (match p0 with
              | XI p1 ->
                (match p1 with
                 | XI p2 ->
                   (match p2 with
                    | XI p3 ->
                      (match p3 with
                       | XO p4 ->
                         (match p4 with
                          | XH ->
                            existsb (fun k ->
                              (&&)
                                ((&&) (Nat.leb k (length s'))
                                  (forallb isdig (firstn k s')))
                                (zone_ok flags (skipn k s'))) ((S O) :: ((S
                              (S O)) :: ((S (S (S O))) :: ((S (S (S (S
                              O)))) :: ((S (S (S (S (S O))))) :: ((S (S (S (S
                              (S (S O)))))) :: ((S (S (S (S (S (S (S
                              O))))))) :: ((S (S (S (S (S (S (S (S
                              O)))))))) :: ((S (S (S (S (S (S (S (S (S
                              O))))))))) :: [])))))))))
                          | _ -> false)
                       | _ -> false)
                    | _ -> false)
                 | _ -> false)
              | _ -> false)
           | _ -> false)
        | _ -> false))

(** val sep_ok : z -> z -> bool **)

let sep_ok flags c =
  (||) (Z.eqb c (Zpos (XO (XO (XI (XO (XI (XO XH))))))))
    ((&&) (has_flag flags iso8601_AllowSpaceSeparator)
      (Z.eqb c (Zpos (XO (XO (XO (XO (XO XH))))))))

(** val iso_spec : z -> bytes -> bool **)

let iso_spec flags s =
  (&&)
    ((&&) (Nat.leb (S (S (S (S (S (S (S (S (S (S O)))))))))) (length s))
      (date_ok (firstn (S (S (S (S (S (S (S (S (S (S O)))))))))) s)))
    (match skipn (S (S (S (S (S (S (S (S (S (S O)))))))))) s with
     | [] -> has_flag flags iso8601_AllowMissingTime
     | sep :: r ->
       (&&)
         ((&&)
           ((&&) (sep_ok flags sep)
             (Nat.leb (S (S (S (S (S (S (S (S O)))))))) (length r)))
           (time_ok (firstn (S (S (S (S (S (S (S (S O)))))))) r)))
         (frac_zone_ok flags (skipn (S (S (S (S (S (S (S (S O)))))))) r)))

(** val asm_hasLessConstL64 : z **)

let asm_hasLessConstL64 =
  Zpos (XI (XO (XO (XO (XO (XO (XO (XO (XI (XO (XO (XO (XO (XO (XO (XO (XI
    (XO (XO (XO (XO (XO (XO (XO (XI (XO (XO (XO (XO (XO (XO (XO (XI (XO (XO
    (XO (XO (XO (XO (XO (XI (XO (XO (XO (XO (XO (XO (XO (XI (XO (XO (XO (XO
    (XO (XO (XO XH))))))))))))))))))))))))))))))))))))))))))))))))))))))))

(** val asm_hasLessConstR64 : z **)

let asm_hasLessConstR64 =
  Zpos (XO (XO (XO (XO (XO (XO (XO (XI (XO (XO (XO (XO (XO (XO (XO (XI (XO
    (XO (XO (XO (XO (XO (XO (XI (XO (XO (XO (XO (XO (XO (XO (XI (XO (XO (XO
    (XO (XO (XO (XO (XI (XO (XO (XO (XO (XO (XO (XO (XI (XO (XO (XO (XO (XO
    (XO (XO (XI (XO (XO (XO (XO (XO (XO (XO
    XH)))))))))))))))))))))))))))))))))))))))))))))))))))))))))))))))

(** val asm_hasLessConstL32 : z **)

let asm_hasLessConstL32 =
  Zpos (XI (XO (XO (XO (XO (XO (XO (XO (XI (XO (XO (XO (XO (XO (XO (XO (XI
    (XO (XO (XO (XO (XO (XO (XO XH))))))))))))))))))))))))

(** val asm_hasLessConstR32 : z **)

let asm_hasLessConstR32 =
  Zpos (XO (XO (XO (XO (XO (XO (XO (XI (XO (XO (XO (XO (XO (XO (XO (XI (XO
    (XO (XO (XO (XO (XO (XO (XI (XO (XO (XO (XO (XO (XO (XO
    XH)))))))))))))))))))))))))))))))

(** val asm_hasMoreConstL64 : z **)

let asm_hasMoreConstL64 =
  Zpos (XI (XO (XO (XO (XO (XO (XO (XO (XI (XO (XO (XO (XO (XO (XO (XO (XI
    (XO (XO (XO (XO (XO (XO (XO (XI (XO (XO (XO (XO (XO (XO (XO (XI (XO (XO
    (XO (XO (XO (XO (XO (XI (XO (XO (XO (XO (XO (XO (XO (XI (XO (XO (XO (XO
    (XO (XO (XO XH))))))))))))))))))))))))))))))))))))))))))))))))))))))))

(** val asm_hasMoreConstR64 : z **)

let asm_hasMoreConstR64 =
  Zpos (XO (XO (XO (XO (XO (XO (XO (XI (XO (XO (XO (XO (XO (XO (XO (XI (XO
    (XO (XO (XO (XO (XO (XO (XI (XO (XO (XO (XO (XO (XO (XO (XI (XO (XO (XO
    (XO (XO (XO (XO (XI (XO (XO (XO (XO (XO (XO (XO (XI (XO (XO (XO (XO (XO
    (XO (XO (XI (XO (XO (XO (XO (XO (XO (XO
    XH)))))))))))))))))))))))))))))))))))))))))))))))))))))))))))))))

(** val asm_hasMoreConstL32 : z **)

let asm_hasMoreConstL32 =
  Zpos (XI (XO (XO (XO (XO (XO (XO (XO (XI (XO (XO (XO (XO (XO (XO (XO (XI
    (XO (XO (XO (XO (XO (XO (XO XH))))))))))))))))))))))))

(** val asm_hasMoreConstR32 : z **)

let asm_hasMoreConstR32 =
  Zpos (XO (XO (XO (XO (XO (XO (XO (XI (XO (XO (XO (XO (XO (XO (XO (XI (XO
    (XO (XO (XO (XO (XO (XO (XI (XO (XO (XO (XO (XO (XO (XO
    XH)))))))))))))))))))))))))))))))

(** val asm_lowerCase : z list **)

let asm_lowerCase =
  Z0 :: ((Zpos XH) :: ((Zpos (XO XH)) :: ((Zpos (XI XH)) :: ((Zpos (XO (XO
    XH))) :: ((Zpos (XI (XO XH))) :: ((Zpos (XO (XI XH))) :: ((Zpos (XI (XI
    XH))) :: ((Zpos (XO (XO (XO XH)))) :: ((Zpos (XI (XO (XO XH)))) :: ((Zpos
    (XO (XI (XO XH)))) :: ((Zpos (XI (XI (XO XH)))) :: ((Zpos (XO (XO (XI
    XH)))) :: ((Zpos (XI (XO (XI XH)))) :: ((Zpos (XO (XI (XI
    XH)))) :: ((Zpos (XI (XI (XI XH)))) :: ((Zpos (XO (XO (XO (XO
    XH))))) :: ((Zpos (XI (XO (XO (XO XH))))) :: ((Zpos (XO (XI (XO (XO
    XH))))) :: ((Zpos (XI (XI (XO (XO XH))))) :: ((Zpos (XO (XO (XI (XO
    XH))))) :: ((Zpos (XI (XO (XI (XO XH))))) :: ((Zpos (XO (XI (XI (XO
    XH))))) :: ((Zpos (XI (XI (XI (XO XH))))) :: ((Zpos (XO (XO (XO (XI
    XH))))) :: ((Zpos (XI (XO (XO (XI XH))))) :: ((Zpos (XO (XI (XO (XI
    XH))))) :: ((Zpos (XI (XI (XO (XI XH))))) :: ((Zpos (XO (XO (XI (XI
    XH))))) :: ((Zpos (XI (XO (XI (XI XH))))) :: ((Zpos (XO (XI (XI (XI
    XH))))) :: ((Zpos (XI (XI (XI (XI XH))))) :: ((Zpos (XO (XO (XO (XO (XO
    XH)))))) :: ((Zpos (XI (XO (XO (XO (XO XH)))))) :: ((Zpos (XO (XI (XO (XO
    (XO XH)))))) :: ((Zpos (XI (XI (XO (XO (XO XH)))))) :: ((Zpos (XO (XO (XI
    (XO (XO XH)))))) :: ((Zpos (XI (XO (XI (XO (XO XH)))))) :: ((Zpos (XO (XI
    (XI (XO (XO XH)))))) :: ((Zpos (XI (XI (XI (XO (XO XH)))))) :: ((Zpos (XO
    (XO (XO (XI (XO XH)))))) :: ((Zpos (XI (XO (XO (XI (XO XH)))))) :: ((Zpos
    (XO (XI (XO (XI (XO XH)))))) :: ((Zpos (XI (XI (XO (XI (XO
    XH)))))) :: ((Zpos (XO (XO (XI (XI (XO XH)))))) :: ((Zpos (XI (XO (XI (XI
    (XO XH)))))) :: ((Zpos (XO (XI (XI (XI (XO XH)))))) :: ((Zpos (XI (XI (XI
    (XI (XO XH)))))) :: ((Zpos (XO (XO (XO (XO (XI XH)))))) :: ((Zpos (XI (XO
    (XO (XO (XI XH)))))) :: ((Zpos (XO (XI (XO (XO (XI XH)))))) :: ((Zpos (XI
    (XI (XO (XO (XI XH)))))) :: ((Zpos (XO (XO (XI (XO (XI XH)))))) :: ((Zpos
    (XI (XO (XI (XO (XI XH)))))) :: ((Zpos (XO (XI (XI (XO (XI
    XH)))))) :: ((Zpos (XI (XI (XI (XO (XI XH)))))) :: ((Zpos (XO (XO (XO (XI
    (XI XH)))))) :: ((Zpos (XI (XO (XO (XI (XI XH)))))) :: ((Zpos (XO (XI (XO
    (XI (XI XH)))))) :: ((Zpos (XI (XI (XO (XI (XI XH)))))) :: ((Zpos (XO (XO
    (XI (XI (XI XH)))))) :: ((Zpos (XI (XO (XI (XI (XI XH)))))) :: ((Zpos (XO
    (XI (XI (XI (XI XH)))))) :: ((Zpos (XI (XI (XI (XI (XI XH)))))) :: ((Zpos
    (XO (XO (XO (XO (XO (XO XH))))))) :: ((Zpos (XI (XO (XO (XO (XO (XI
    XH))))))) :: ((Zpos (XO (XI (XO (XO (XO (XI XH))))))) :: ((Zpos (XI (XI
    (XO (XO (XO (XI XH))))))) :: ((Zpos (XO (XO (XI (XO (XO (XI
    XH))))))) :: ((Zpos (XI (XO (XI (XO (XO (XI XH))))))) :: ((Zpos (XO (XI
    (XI (XO (XO (XI XH))))))) :: ((Zpos (XI (XI (XI (XO (XO (XI
    XH))))))) :: ((Zpos (XO (XO (XO (XI (XO (XI XH))))))) :: ((Zpos (XI (XO
    (XO (XI (XO (XI XH))))))) :: ((Zpos (XO (XI (XO (XI (XO (XI
    XH))))))) :: ((Zpos (XI (XI (XO (XI (XO (XI XH))))))) :: ((Zpos (XO (XO
    (XI (XI (XO (XI XH))))))) :: ((Zpos (XI (XO (XI (XI (XO (XI
    XH))))))) :: ((Zpos (XO (XI (XI (XI (XO (XI XH))))))) :: ((Zpos (XI (XI
    (XI (XI (XO (XI XH))))))) :: ((Zpos (XO (XO (XO (XO (XI (XI
    XH))))))) :: ((Zpos (XI (XO (XO (XO (XI (XI XH))))))) :: ((Zpos (XO (XI
    (XO (XO (XI (XI XH))))))) :: ((Zpos (XI (XI (XO (XO (XI (XI
    XH))))))) :: ((Zpos (XO (XO (XI (XO (XI (XI XH))))))) :: ((Zpos (XI (XO
    (XI (XO (XI (XI XH))))))) :: ((Zpos (XO (XI (XI (XO (XI (XI
    XH))))))) :: ((Zpos (XI (XI (XI (XO (XI (XI XH))))))) :: ((Zpos (XO (XO
    (XO (XI (XI (XI XH))))))) :: ((Zpos (XI (XO (XO (XI (XI (XI
    XH))))))) :: ((Zpos (XO (XI (XO (XI (XI (XI XH))))))) :: ((Zpos (XI (XI
    (XO (XI (XI (XO XH))))))) :: ((Zpos (XO (XO (XI (XI (XI (XO
    XH))))))) :: ((Zpos (XI (XO (XI (XI (XI (XO XH))))))) :: ((Zpos (XO (XI
    (XI (XI (XI (XO XH))))))) :: ((Zpos (XI (XI (XI (XI (XI (XO
    XH))))))) :: ((Zpos (XO (XO (XO (XO (XO (XI XH))))))) :: ((Zpos (XI (XO
    (XO (XO (XO (XI XH))))))) :: ((Zpos (XO (XI (XO (XO (XO (XI
    XH))))))) :: ((Zpos (XI (XI (XO (XO (XO (XI XH))))))) :: ((Zpos (XO (XO
    (XI (XO (XO (XI XH))))))) :: ((Zpos (XI (XO (XI (XO (XO (XI
    XH))))))) :: ((Zpos (XO (XI (XI (XO (XO (XI XH))))))) :: ((Zpos (XI (XI
    (XI (XO (XO (XI XH))))))) :: ((Zpos (XO (XO (XO (XI (XO (XI
    XH))))))) :: ((Zpos (XI (XO (XO (XI (XO (XI XH))))))) :: ((Zpos (XO (XI
    (XO (XI (XO (XI XH))))))) :: ((Zpos (XI (XI (XO (XI (XO (XI
    XH))))))) :: ((Zpos (XO (XO (XI (XI (XO (XI XH))))))) :: ((Zpos (XI (XO
    (XI (XI (XO (XI XH))))))) :: ((Zpos (XO (XI (XI (XI (XO (XI
    XH))))))) :: ((Zpos (XI (XI (XI (XI (XO (XI XH))))))) :: ((Zpos (XO (XO
    (XO (XO (XI (XI XH))))))) :: ((Zpos (XI (XO (XO (XO (XI (XI
    XH))))))) :: ((Zpos (XO (XI (XO (XO (XI (XI XH))))))) :: ((Zpos (XI (XI
    (XO (XO (XI (XI XH))))))) :: ((Zpos (XO (XO (XI (XO (XI (XI
    XH))))))) :: ((Zpos (XI (XO (XI (XO (XI (XI XH))))))) :: ((Zpos (XO (XI
    (XI (XO (XI (XI XH))))))) :: ((Zpos (XI (XI (XI (XO (XI (XI
    XH))))))) :: ((Zpos (XO (XO (XO (XI (XI (XI XH))))))) :: ((Zpos (XI (XO
    (XO (XI (XI (XI XH))))))) :: ((Zpos (XO (XI (XO (XI (XI (XI
    XH))))))) :: ((Zpos (XI (XI (XO (XI (XI (XI XH))))))) :: ((Zpos (XO (XO
    (XI (XI (XI (XI XH))))))) :: ((Zpos (XI (XO (XI (XI (XI (XI
    XH))))))) :: ((Zpos (XO (XI (XI (XI (XI (XI XH))))))) :: ((Zpos (XI (XI
    (XI (XI (XI (XI XH))))))) :: ((Zpos (XO (XO (XO (XO (XO (XO (XO
    XH)))))))) :: ((Zpos (XI (XO (XO (XO (XO (XO (XO XH)))))))) :: ((Zpos (XO
    (XI (XO (XO (XO (XO (XO XH)))))))) :: ((Zpos (XI (XI (XO (XO (XO (XO (XO
    XH)))))))) :: ((Zpos (XO (XO (XI (XO (XO (XO (XO XH)))))))) :: ((Zpos (XI
    (XO (XI (XO (XO (XO (XO XH)))))))) :: ((Zpos (XO (XI (XI (XO (XO (XO (XO
    XH)))))))) :: ((Zpos (XI (XI (XI (XO (XO (XO (XO XH)))))))) :: ((Zpos (XO
    (XO (XO (XI (XO (XO (XO XH)))))))) :: ((Zpos (XI (XO (XO (XI (XO (XO (XO
    XH)))))))) :: ((Zpos (XO (XI (XO (XI (XO (XO (XO XH)))))))) :: ((Zpos (XI
    (XI (XO (XI (XO (XO (XO XH)))))))) :: ((Zpos (XO (XO (XI (XI (XO (XO (XO
    XH)))))))) :: ((Zpos (XI (XO (XI (XI (XO (XO (XO XH)))))))) :: ((Zpos (XO
    (XI (XI (XI (XO (XO (XO XH)))))))) :: ((Zpos (XI (XI (XI (XI (XO (XO (XO
    XH)))))))) :: ((Zpos (XO (XO (XO (XO (XI (XO (XO XH)))))))) :: ((Zpos (XI
    (XO (XO (XO (XI (XO (XO XH)))))))) :: ((Zpos (XO (XI (XO (XO (XI (XO (XO
    XH)))))))) :: ((Zpos (XI (XI (XO (XO (XI (XO (XO XH)))))))) :: ((Zpos (XO
    (XO (XI (XO (XI (XO (XO XH)))))))) :: ((Zpos (XI (XO (XI (XO (XI (XO (XO
    XH)))))))) :: ((Zpos (XO (XI (XI (XO (XI (XO (XO XH)))))))) :: ((Zpos (XI
    (XI (XI (XO (XI (XO (XO XH)))))))) :: ((Zpos (XO (XO (XO (XI (XI (XO (XO
    XH)))))))) :: ((Zpos (XI (XO (XO (XI (XI (XO (XO XH)))))))) :: ((Zpos (XO
    (XI (XO (XI (XI (XO (XO XH)))))))) :: ((Zpos (XI (XI (XO (XI (XI (XO (XO
    XH)))))))) :: ((Zpos (XO (XO (XI (XI (XI (XO (XO XH)))))))) :: ((Zpos (XI
    (XO (XI (XI (XI (XO (XO XH)))))))) :: ((Zpos (XO (XI (XI (XI (XI (XO (XO
    XH)))))))) :: ((Zpos (XI (XI (XI (XI (XI (XO (XO XH)))))))) :: ((Zpos (XO
    (XO (XO (XO (XO (XI (XO XH)))))))) :: ((Zpos (XI (XO (XO (XO (XO (XI (XO
    XH)))))))) :: ((Zpos (XO (XI (XO (XO (XO (XI (XO XH)))))))) :: ((Zpos (XI
    (XI (XO (XO (XO (XI (XO XH)))))))) :: ((Zpos (XO (XO (XI (XO (XO (XI (XO
    XH)))))))) :: ((Zpos (XI (XO (XI (XO (XO (XI (XO XH)))))))) :: ((Zpos (XO
    (XI (XI (XO (XO (XI (XO XH)))))))) :: ((Zpos (XI (XI (XI (XO (XO (XI (XO
    XH)))))))) :: ((Zpos (XO (XO (XO (XI (XO (XI (XO XH)))))))) :: ((Zpos (XI
    (XO (XO (XI (XO (XI (XO XH)))))))) :: ((Zpos (XO (XI (XO (XI (XO (XI (XO
    XH)))))))) :: ((Zpos (XI (XI (XO (XI (XO (XI (XO XH)))))))) :: ((Zpos (XO
    (XO (XI (XI (XO (XI (XO XH)))))))) :: ((Zpos (XI (XO (XI (XI (XO (XI (XO
    XH)))))))) :: ((Zpos (XO (XI (XI (XI (XO (XI (XO XH)))))))) :: ((Zpos (XI
    (XI (XI (XI (XO (XI (XO XH)))))))) :: ((Zpos (XO (XO (XO (XO (XI (XI (XO
    XH)))))))) :: ((Zpos (XI (XO (XO (XO (XI (XI (XO XH)))))))) :: ((Zpos (XO
    (XI (XO (XO (XI (XI (XO XH)))))))) :: ((Zpos (XI (XI (XO (XO (XI (XI (XO
    XH)))))))) :: ((Zpos (XO (XO (XI (XO (XI (XI (XO XH)))))))) :: ((Zpos (XI
    (XO (XI (XO (XI (XI (XO XH)))))))) :: ((Zpos (XO (XI (XI (XO (XI (XI (XO
    XH)))))))) :: ((Zpos (XI (XI (XI (XO (XI (XI (XO XH)))))))) :: ((Zpos (XO
    (XO (XO (XI (XI (XI (XO XH)))))))) :: ((Zpos (XI (XO (XO (XI (XI (XI (XO
    XH)))))))) :: ((Zpos (XO (XI (XO (XI (XI (XI (XO XH)))))))) :: ((Zpos (XI
    (XI (XO (XI (XI (XI (XO XH)))))))) :: ((Zpos (XO (XO (XI (XI (XI (XI (XO
    XH)))))))) :: ((Zpos (XI (XO (XI (XI (XI (XI (XO XH)))))))) :: ((Zpos (XO
    (XI (XI (XI (XI (XI (XO XH)))))))) :: ((Zpos (XI (XI (XI (XI (XI (XI (XO
    XH)))))))) :: ((Zpos (XO (XO (XO (XO (XO (XO (XI XH)))))))) :: ((Zpos (XI
    (XO (XO (XO (XO (XO (XI XH)))))))) :: ((Zpos (XO (XI (XO (XO (XO (XO (XI
    XH)))))))) :: ((Zpos (XI (XI (XO (XO (XO (XO (XI XH)))))))) :: ((Zpos (XO
    (XO (XI (XO (XO (XO (XI XH)))))))) :: ((Zpos (XI (XO (XI (XO (XO (XO (XI
    XH)))))))) :: ((Zpos (XO (XI (XI (XO (XO (XO (XI XH)))))))) :: ((Zpos (XI
    (XI (XI (XO (XO (XO (XI XH)))))))) :: ((Zpos (XO (XO (XO (XI (XO (XO (XI
    XH)))))))) :: ((Zpos (XI (XO (XO (XI (XO (XO (XI XH)))))))) :: ((Zpos (XO
    (XI (XO (XI (XO (XO (XI XH)))))))) :: ((Zpos (XI (XI (XO (XI (XO (XO (XI
    XH)))))))) :: ((Zpos (XO (XO (XI (XI (XO (XO (XI XH)))))))) :: ((Zpos (XI
    (XO (XI (XI (XO (XO (XI XH)))))))) :: ((Zpos (XO (XI (XI (XI (XO (XO (XI
    XH)))))))) :: ((Zpos (XI (XI (XI (XI (XO (XO (XI XH)))))))) :: ((Zpos (XO
    (XO (XO (XO (XI (XO (XI XH)))))))) :: ((Zpos (XI (XO (XO (XO (XI (XO (XI
    XH)))))))) :: ((Zpos (XO (XI (XO (XO (XI (XO (XI XH)))))))) :: ((Zpos (XI
    (XI (XO (XO (XI (XO (XI XH)))))))) :: ((Zpos (XO (XO (XI (XO (XI (XO (XI
    XH)))))))) :: ((Zpos (XI (XO (XI (XO (XI (XO (XI XH)))))))) :: ((Zpos (XO
    (XI (XI (XO (XI (XO (XI XH)))))))) :: ((Zpos (XI (XI (XI (XO (XI (XO (XI
    XH)))))))) :: ((Zpos (XO (XO (XO (XI (XI (XO (XI XH)))))))) :: ((Zpos (XI
    (XO (XO (XI (XI (XO (XI XH)))))))) :: ((Zpos (XO (XI (XO (XI (XI (XO (XI
    XH)))))))) :: ((Zpos (XI (XI (XO (XI (XI (XO (XI XH)))))))) :: ((Zpos (XO
    (XO (XI (XI (XI (XO (XI XH)))))))) :: ((Zpos (XI (XO (XI (XI (XI (XO (XI
    XH)))))))) :: ((Zpos (XO (XI (XI (XI (XI (XO (XI XH)))))))) :: ((Zpos (XI
    (XI (XI (XI (XI (XO (XI XH)))))))) :: ((Zpos (XO (XO (XO (XO (XO (XI (XI
    XH)))))))) :: ((Zpos (XI (XO (XO (XO (XO (XI (XI XH)))))))) :: ((Zpos (XO
    (XI (XO (XO (XO (XI (XI XH)))))))) :: ((Zpos (XI (XI (XO (XO (XO (XI (XI
    XH)))))))) :: ((Zpos (XO (XO (XI (XO (XO (XI (XI XH)))))))) :: ((Zpos (XI
    (XO (XI (XO (XO (XI (XI XH)))))))) :: ((Zpos (XO (XI (XI (XO (XO (XI (XI
    XH)))))))) :: ((Zpos (XI (XI (XI (XO (XO (XI (XI XH)))))))) :: ((Zpos (XO
    (XO (XO (XI (XO (XI (XI XH)))))))) :: ((Zpos (XI (XO (XO (XI (XO (XI (XI
    XH)))))))) :: ((Zpos (XO (XI (XO (XI (XO (XI (XI XH)))))))) :: ((Zpos (XI
    (XI (XO (XI (XO (XI (XI XH)))))))) :: ((Zpos (XO (XO (XI (XI (XO (XI (XI
    XH)))))))) :: ((Zpos (XI (XO (XI (XI (XO (XI (XI XH)))))))) :: ((Zpos (XO
    (XI (XI (XI (XO (XI (XI XH)))))))) :: ((Zpos (XI (XI (XI (XI (XO (XI (XI
    XH)))))))) :: ((Zpos (XO (XO (XO (XO (XI (XI (XI XH)))))))) :: ((Zpos (XI
    (XO (XO (XO (XI (XI (XI XH)))))))) :: ((Zpos (XO (XI (XO (XO (XI (XI (XI
    XH)))))))) :: ((Zpos (XI (XI (XO (XO (XI (XI (XI XH)))))))) :: ((Zpos (XO
    (XO (XI (XO (XI (XI (XI XH)))))))) :: ((Zpos (XI (XO (XI (XO (XI (XI (XI
    XH)))))))) :: ((Zpos (XO (XI (XI (XO (XI (XI (XI XH)))))))) :: ((Zpos (XI
    (XI (XI (XO (XI (XI (XI XH)))))))) :: ((Zpos (XO (XO (XO (XI (XI (XI (XI
    XH)))))))) :: ((Zpos (XI (XO (XO (XI (XI (XI (XI XH)))))))) :: ((Zpos (XO
    (XI (XO (XI (XI (XI (XI XH)))))))) :: ((Zpos (XI (XI (XO (XI (XI (XI (XI
    XH)))))))) :: ((Zpos (XO (XO (XI (XI (XI (XI (XI XH)))))))) :: ((Zpos (XI
    (XO (XI (XI (XI (XI (XI XH)))))))) :: ((Zpos (XO (XI (XI (XI (XI (XI (XI
    XH)))))))) :: ((Zpos (XI (XI (XI (XI (XI (XI (XI
    XH)))))))) :: [])))))))))))))))))))))))))))))))))))))))))))))))))))))))))))))))))))))))))))))))))))))))))))))))))))))))))))))))))))))))))))))))))))))))))))))))))))))))))))))))))))))))))))))))))))))))))))))))))))))))))))))))))))))))))))))))))))))))))))))))))))))))))))))))

(** val asm_hasLess64 : z -> z -> bool **)

let asm_hasLess64 x n0 =
  negb
    (Z.eqb
      (and64 (and64 (sub64 x (mul64 asm_hasLessConstL64 n0)) (not64 x))
        asm_hasLessConstR64) Z0)

(** val asm_hasLess32 : z -> z -> bool **)

let asm_hasLess32 x n0 =
  negb
    (Z.eqb
      (and32 (and32 (sub32 x (mul32 asm_hasLessConstL32 n0)) (not32 x))
        asm_hasLessConstR32) Z0)

(** val asm_hasMore64 : z -> z -> bool **)

let asm_hasMore64 x n0 =
  negb
    (Z.eqb
      (and64
        (or64
          (add64 x
            (mul64 asm_hasMoreConstL64
              (sub64 (Zpos (XI (XI (XI (XI (XI (XI XH))))))) n0))) x)
        asm_hasMoreConstR64) Z0)

(** val asm_hasMore32 : z -> z -> bool **)

let asm_hasMore32 x n0 =
  negb
    (Z.eqb
      (and32
        (or32
          (add32 x
            (mul32 asm_hasMoreConstL32
              (sub32 (Zpos (XI (XI (XI (XI (XI (XI XH))))))) n0))) x)
        asm_hasMoreConstR32) Z0)

(** val asm_ValidByte : z -> bool **)

let asm_ValidByte b =
  Z.leb b (Zpos (XI (XI (XI (XI (XI (XI XH)))))))

(** val asm_ValidRune : z -> bool **)

let asm_ValidRune r =
  Z.leb r (Zpos (XI (XI (XI (XI (XI (XI XH)))))))

(** val asm_ValidPrintByte : z -> bool **)

let asm_ValidPrintByte b =
  (&&) (Z.leb (Zpos (XO (XO (XO (XO (XO XH)))))) b)
    (Z.leb b (Zpos (XO (XI (XI (XI (XI (XI XH))))))))

(** val asm_ValidPrintRune : z -> bool **)

let asm_ValidPrintRune r =
  (&&) (Z.leb (Zpos (XO (XO (XO (XO (XO XH)))))) r)
    (Z.leb r (Zpos (XO (XI (XI (XI (XI (XI XH))))))))

(** val asm_ValidString : nat -> bytes -> bool option **)

let asm_ValidString fuel s =
  let i = Z0 in
  let n0 = w64 (len s) in
  let k4_ = fun i0 ->
    let k3_ = fun i1 ->
      if Z.eqb i1 n0
      then Some true
      else let p = slice_from s i1 in
           let k1_ = fun x -> Some
             (Z.eqb
               (and32 x (Zpos (XO (XO (XO (XO (XO (XO (XO (XI (XO (XO (XO (XO
                 (XO (XO (XO (XI (XO (XO (XO (XO (XO (XO (XO (XI (XO (XO (XO
                 (XO (XO (XO (XO XH))))))))))))))))))))))))))))))))) Z0)
           in
           let tag2_ = sub64 n0 i1 in
           if Z.eqb tag2_ (Zpos (XI XH))
           then let x =
                  or32 (le16 p)
                    (shl32 (at_ p (Zpos (XO XH))) (Zpos (XO (XO (XO (XO
                      XH))))))
                in
                k1_ x
           else if Z.eqb tag2_ (Zpos (XO XH))
                then let x = le16 p in k1_ x
                else if Z.eqb tag2_ (Zpos XH)
                     then let x = at_ p Z0 in k1_ x
                     else Some true
    in
    if Z.leb (add64 i0 (Zpos (XO (XO XH)))) n0
    then if negb
              (Z.eqb
                (and32 (le32 (slice_from s i0)) (Zpos (XO (XO (XO (XO (XO (XO
                  (XO (XI (XO (XO (XO (XO (XO (XO (XO (XI (XO (XO (XO (XO (XO
                  (XO (XO (XI (XO (XO (XO (XO (XO (XO (XO
                  XH))))))))))))))))))))))))))))))))) Z0)
         then Some false
         else let i1 = add64 i0 (Zpos (XO (XO XH))) in k3_ i1
    else k3_ i0
  in
  let rec loop5_ f6_ i0 =
    match f6_ with
    | O -> None
    | S f7_ ->
      if Z.leb (add64 i0 (Zpos (XO (XO (XO XH))))) n0
      then if negb
                (Z.eqb
                  (and64 (le64 (slice_from s i0)) (Zpos (XO (XO (XO (XO (XO
                    (XO (XO (XI (XO (XO (XO (XO (XO (XO (XO (XI (XO (XO (XO
                    (XO (XO (XO (XO (XI (XO (XO (XO (XO (XO (XO (XO (XI (XO
                    (XO (XO (XO (XO (XO (XO (XI (XO (XO (XO (XO (XO (XO (XO
                    (XI (XO (XO (XO (XO (XO (XO (XO (XI (XO (XO (XO (XO (XO
                    (XO (XO
                    XH)))))))))))))))))))))))))))))))))))))))))))))))))))))))))))))))))
                  Z0)
           then Some false
           else let i1 = add64 i0 (Zpos (XO (XO (XO XH)))) in loop5_ f7_ i1
      else k4_ i0
  in loop5_ fuel i

(** val asm_Valid : nat -> bytes -> bool option **)

let asm_Valid fuel b =
  obind (asm_ValidString fuel (Obj.magic id b)) (fun r1_ -> Some r1_)

(** val asm_ValidPrintString : nat -> bytes -> bool option **)

let asm_ValidPrintString fuel s =
  let i = Z0 in
  let n0 = w64 (len s) in
  let k4_ = fun i0 ->
    let k3_ = fun i1 ->
      if Z.eqb i1 n0
      then Some true
      else let p = slice_from s i1 in
           let k1_ = fun x -> Some
             (negb
               ((||) (asm_hasLess32 x (Zpos (XO (XO (XO (XO (XO XH)))))))
                 (asm_hasMore32 x (Zpos (XO (XI (XI (XI (XI (XI XH))))))))))
           in
           let tag2_ = sub64 n0 i1 in
           if Z.eqb tag2_ (Zpos (XI XH))
           then let x =
                  or32
                    (or32 (Zpos (XO (XO (XO (XO (XO (XO (XO (XO (XO (XO (XO
                      (XO (XO (XO (XO (XO (XO (XO (XO (XO (XO (XO (XO (XO (XO
                      (XO (XO (XO (XO XH))))))))))))))))))))))))))))))
                      (le16 p))
                    (shl32 (at_ p (Zpos (XO XH))) (Zpos (XO (XO (XO (XO
                      XH))))))
                in
                k1_ x
           else if Z.eqb tag2_ (Zpos (XO XH))
                then let x =
                       or32 (Zpos (XO (XO (XO (XO (XO (XO (XO (XO (XO (XO (XO
                         (XO (XO (XO (XO (XO (XO (XO (XO (XO (XO (XI (XO (XO
                         (XO (XO (XO (XO (XO XH))))))))))))))))))))))))))))))
                         (le16 p)
                     in
                     k1_ x
                else if Z.eqb tag2_ (Zpos XH)
                     then let x =
                            or32 (Zpos (XO (XO (XO (XO (XO (XO (XO (XO (XO
                              (XO (XO (XO (XO (XI (XO (XO (XO (XO (XO (XO (XO
                              (XI (XO (XO (XO (XO (XO (XO (XO
                              XH)))))))))))))))))))))))))))))) (at_ p Z0)
                          in
                          k1_ x
                     else Some true
    in
    if Z.leb (add64 i0 (Zpos (XO (XO XH)))) n0
    then if (||)
              (asm_hasLess32 (le32 (slice_from s i0)) (Zpos (XO (XO (XO (XO
                (XO XH)))))))
              (asm_hasMore32 (le32 (slice_from s i0)) (Zpos (XO (XI (XI (XI
                (XI (XI XH))))))))
         then Some false
         else let i1 = add64 i0 (Zpos (XO (XO XH))) in k3_ i1
    else k3_ i0
  in
  let rec loop5_ f6_ i0 =
    match f6_ with
    | O -> None
    | S f7_ ->
      if Z.leb (add64 i0 (Zpos (XO (XO (XO XH))))) n0
      then if (||)
                (asm_hasLess64 (le64 (slice_from s i0)) (Zpos (XO (XO (XO (XO
                  (XO XH)))))))
                (asm_hasMore64 (le64 (slice_from s i0)) (Zpos (XO (XI (XI (XI
                  (XI (XI XH))))))))
           then Some false
           else let i1 = add64 i0 (Zpos (XO (XO (XO XH)))) in loop5_ f7_ i1
      else k4_ i0
  in loop5_ fuel i

(** val asm_ValidPrint : nat -> bytes -> bool option **)

let asm_ValidPrint fuel b =
  obind (asm_ValidPrintString fuel (Obj.magic id b)) (fun r1_ -> Some r1_)

(** val asm_EqualFoldString : nat -> bytes -> bytes -> bool option **)

let asm_EqualFoldString fuel a b =
  if negb (Z.eqb (len a) (len b))
  then Some false
  else let cmp = Z0 in
       let k10_ = fun a0 b0 cmp0 ->
         let k1_ = fun cmp1 -> Some (Z.eqb cmp1 Z0) in
         let tag2_ = len a0 in
         let k3_ = fun cmp1 ->
           let cmp2 =
             or8 cmp1
               (xor8 (nth (Z.to_nat (at_ a0 Z0)) asm_lowerCase Z0)
                 (nth (Z.to_nat (at_ b0 Z0)) asm_lowerCase Z0))
           in
           k1_ cmp2
         in
         let k4_ = fun cmp1 ->
           let cmp2 =
             or8 cmp1
               (xor8 (nth (Z.to_nat (at_ a0 (Zpos XH))) asm_lowerCase Z0)
                 (nth (Z.to_nat (at_ b0 (Zpos XH))) asm_lowerCase Z0))
           in
           k3_ cmp2
         in
         let k5_ = fun cmp1 ->
           let cmp2 =
             or8 cmp1
               (xor8
                 (nth (Z.to_nat (at_ a0 (Zpos (XO XH)))) asm_lowerCase Z0)
                 (nth (Z.to_nat (at_ b0 (Zpos (XO XH)))) asm_lowerCase Z0))
           in
           k4_ cmp2
         in
         let k6_ = fun cmp1 ->
           let cmp2 =
             or8 cmp1
               (xor8
                 (nth (Z.to_nat (at_ a0 (Zpos (XI XH)))) asm_lowerCase Z0)
                 (nth (Z.to_nat (at_ b0 (Zpos (XI XH)))) asm_lowerCase Z0))
           in
           k5_ cmp2
         in
         let k7_ = fun cmp1 ->
           let cmp2 =
             or8 cmp1
               (xor8
                 (nth (Z.to_nat (at_ a0 (Zpos (XO (XO XH))))) asm_lowerCase
                   Z0)
                 (nth (Z.to_nat (at_ b0 (Zpos (XO (XO XH))))) asm_lowerCase
                   Z0))
           in
           k6_ cmp2
         in
         let k8_ = fun cmp1 ->
           let cmp2 =
             or8 cmp1
               (xor8
                 (nth (Z.to_nat (at_ a0 (Zpos (XI (XO XH))))) asm_lowerCase
                   Z0)
                 (nth (Z.to_nat (at_ b0 (Zpos (XI (XO XH))))) asm_lowerCase
                   Z0))
           in
           k7_ cmp2
         in
         let k9_ = fun cmp1 ->
           let cmp2 =
             or8 cmp1
               (xor8
                 (nth (Z.to_nat (at_ a0 (Zpos (XO (XI XH))))) asm_lowerCase
                   Z0)
                 (nth (Z.to_nat (at_ b0 (Zpos (XO (XI XH))))) asm_lowerCase
                   Z0))
           in
           k8_ cmp2
         in
         if Z.eqb tag2_ (Zpos (XI (XI XH)))
         then k9_ cmp0
         else if Z.eqb tag2_ (Zpos (XO (XI XH)))
              then k8_ cmp0
              else if Z.eqb tag2_ (Zpos (XI (XO XH)))
                   then k7_ cmp0
                   else if Z.eqb tag2_ (Zpos (XO (XO XH)))
                        then k6_ cmp0
                        else if Z.eqb tag2_ (Zpos (XI XH))
                             then k5_ cmp0
                             else if Z.eqb tag2_ (Zpos (XO XH))
                                  then k4_ cmp0
                                  else if Z.eqb tag2_ (Zpos XH)
                                       then k3_ cmp0
                                       else k1_ cmp0
       in
       let rec loop11_ f12_ a0 b0 cmp0 =
         match f12_ with
         | O -> None
         | S f13_ ->
           if Z.geb (len a0) (Zpos (XO (XO (XO XH))))
           then let cmp1 =
                  or8 cmp0
                    (xor8 (nth (Z.to_nat (at_ a0 Z0)) asm_lowerCase Z0)
                      (nth (Z.to_nat (at_ b0 Z0)) asm_lowerCase Z0))
                in
                let cmp2 =
                  or8 cmp1
                    (xor8
                      (nth (Z.to_nat (at_ a0 (Zpos XH))) asm_lowerCase Z0)
                      (nth (Z.to_nat (at_ b0 (Zpos XH))) asm_lowerCase Z0))
                in
                let cmp3 =
                  or8 cmp2
                    (xor8
                      (nth (Z.to_nat (at_ a0 (Zpos (XO XH)))) asm_lowerCase
                        Z0)
                      (nth (Z.to_nat (at_ b0 (Zpos (XO XH)))) asm_lowerCase
                        Z0))
                in
                let cmp4 =
                  or8 cmp3
                    (xor8
                      (nth (Z.to_nat (at_ a0 (Zpos (XI XH)))) asm_lowerCase
                        Z0)
                      (nth (Z.to_nat (at_ b0 (Zpos (XI XH)))) asm_lowerCase
                        Z0))
                in
                let cmp5 =
                  or8 cmp4
                    (xor8
                      (nth (Z.to_nat (at_ a0 (Zpos (XO (XO XH)))))
                        asm_lowerCase Z0)
                      (nth (Z.to_nat (at_ b0 (Zpos (XO (XO XH)))))
                        asm_lowerCase Z0))
                in
                let cmp6 =
                  or8 cmp5
                    (xor8
                      (nth (Z.to_nat (at_ a0 (Zpos (XI (XO XH)))))
                        asm_lowerCase Z0)
                      (nth (Z.to_nat (at_ b0 (Zpos (XI (XO XH)))))
                        asm_lowerCase Z0))
                in
                let cmp7 =
                  or8 cmp6
                    (xor8
                      (nth (Z.to_nat (at_ a0 (Zpos (XO (XI XH)))))
                        asm_lowerCase Z0)
                      (nth (Z.to_nat (at_ b0 (Zpos (XO (XI XH)))))
                        asm_lowerCase Z0))
                in
                let cmp8 =
                  or8 cmp7
                    (xor8
                      (nth (Z.to_nat (at_ a0 (Zpos (XI (XI XH)))))
                        asm_lowerCase Z0)
                      (nth (Z.to_nat (at_ b0 (Zpos (XI (XI XH)))))
                        asm_lowerCase Z0))
                in
                if negb (Z.eqb cmp8 Z0)
                then Some false
                else let a1 = slice_from a0 (Zpos (XO (XO (XO XH)))) in
                     let b1 = slice_from b0 (Zpos (XO (XO (XO XH)))) in
                     loop11_ f13_ a1 b1 cmp8
           else k10_ a0 b0 cmp0
       in loop11_ fuel a b cmp

(** val asm_EqualFold : nat -> bytes -> bytes -> bool option **)

let asm_EqualFold fuel a b =
  obind (asm_EqualFoldString fuel (Obj.magic id a) (Obj.magic id b))
    (fun r1_ -> Some r1_)

(** val asm_HasPrefixFold : nat -> bytes -> bytes -> bool option **)

let asm_HasPrefixFold fuel s prefix =
  if Z.geb (len s) (len prefix)
  then obind (asm_EqualFold fuel (slice_to s (len prefix)) prefix)
         (fun r1_ -> Some r1_)
  else Some false

(** val asm_HasSuffixFold : nat -> bytes -> bytes -> bool option **)

let asm_HasSuffixFold fuel s suffix =
  if Z.geb (len s) (len suffix)
  then obind
         (asm_EqualFold fuel (slice_from s (subi64 (len s) (len suffix)))
           suffix) (fun r1_ -> Some r1_)
  else Some false

(** val asm_HasPrefixFoldString : nat -> bytes -> bytes -> bool option **)

let asm_HasPrefixFoldString fuel s prefix =
  if Z.geb (len s) (len prefix)
  then obind (asm_EqualFoldString fuel (slice_to s (len prefix)) prefix)
         (fun r1_ -> Some r1_)
  else Some false

(** val asm_HasSuffixFoldString : nat -> bytes -> bytes -> bool option **)

let asm_HasSuffixFoldString fuel s suffix =
  if Z.geb (len s) (len suffix)
  then obind
         (asm_EqualFoldString fuel
           (slice_from s (subi64 (len s) (len suffix))) suffix) (fun r1_ ->
         Some r1_)
  else Some false

(** val run_fuel : bool option -> bool **)

let run_fuel = function
| Some r -> r
| None -> false

(** val asmt_Valid : bytes -> bool **)

let asmt_Valid b =
  run_fuel (asm_Valid (S (length b)) b)

(** val asmt_ValidString : bytes -> bool **)

let asmt_ValidString s =
  run_fuel (asm_ValidString (S (length s)) s)

(** val asmt_ValidPrint : bytes -> bool **)

let asmt_ValidPrint b =
  run_fuel (asm_ValidPrint (S (length b)) b)

(** val asmt_ValidPrintString : bytes -> bool **)

let asmt_ValidPrintString s =
  run_fuel (asm_ValidPrintString (S (length s)) s)

(** val asmt_EqualFold : bytes -> bytes -> bool **)

let asmt_EqualFold a b =
  run_fuel (asm_EqualFold (S (length a)) a b)

(** val asmt_EqualFoldString : bytes -> bytes -> bool **)

let asmt_EqualFoldString a b =
  run_fuel (asm_EqualFoldString (S (length a)) a b)

(** val asmt_HasPrefixFold : bytes -> bytes -> bool **)

let asmt_HasPrefixFold s p =
  run_fuel (asm_HasPrefixFold (S (length p)) s p)

(** val asmt_HasPrefixFoldString : bytes -> bytes -> bool **)

let asmt_HasPrefixFoldString s p =
  run_fuel (asm_HasPrefixFoldString (S (length p)) s p)

(** val asmt_HasSuffixFold : bytes -> bytes -> bool **)

let asmt_HasSuffixFold s p =
  run_fuel (asm_HasSuffixFold (S (length p)) s p)

(** val asmt_HasSuffixFoldString : bytes -> bytes -> bool **)

let asmt_HasSuffixFoldString s p =
  run_fuel (asm_HasSuffixFoldString (S (length p)) s p)

(** val ascii_Valid : bytes -> bool **)

let ascii_Valid =
  asmt_Valid

(** val ascii_ValidByte : z -> bool **)

let ascii_ValidByte =
  asm_ValidByte

(** val ascii_ValidRune : z -> bool **)

let ascii_ValidRune =
  asm_ValidRune

(** val ascii_ValidString : bytes -> bool **)

let ascii_ValidString =
  asmt_ValidString

(** val ascii_ValidPrint : bytes -> bool **)

let ascii_ValidPrint =
  asmt_ValidPrint

(** val ascii_ValidPrintByte : z -> bool **)

let ascii_ValidPrintByte =
  asm_ValidPrintByte

(** val ascii_ValidPrintRune : z -> bool **)

let ascii_ValidPrintRune =
  asm_ValidPrintRune

(** val ascii_ValidPrintString : bytes -> bool **)

let ascii_ValidPrintString =
  asmt_ValidPrintString

(** val ascii_EqualFold : bytes -> bytes -> bool **)

let ascii_EqualFold =
  asmt_EqualFold

(** val ascii_HasPrefixFold : bytes -> bytes -> bool **)

let ascii_HasPrefixFold =
  asmt_HasPrefixFold

(** val ascii_HasSuffixFold : bytes -> bytes -> bool **)

let ascii_HasSuffixFold =
  asmt_HasSuffixFold

(** val ascii_EqualFoldString : bytes -> bytes -> bool **)

let ascii_EqualFoldString =
  asmt_EqualFoldString

(** val ascii_HasPrefixFoldString : bytes -> bytes -> bool **)

let ascii_HasPrefixFoldString =
  asmt_HasPrefixFoldString

(** val ascii_HasSuffixFoldString : bytes -> bytes -> bool **)

let ascii_HasSuffixFoldString =
  asmt_HasSuffixFoldString

(** val is_ascii : z -> bool **)

let is_ascii b =
  Z.ltb b (Zpos (XO (XO (XO (XO (XO (XO (XO XH))))))))

(** val is_print : z -> bool **)

let is_print b =
  (&&) (Z.leb (Zpos (XO (XO (XO (XO (XO XH)))))) b)
    (Z.leb b (Zpos (XO (XI (XI (XI (XI (XI XH))))))))

(** val lower : z -> z **)

let lower b =
  if (&&) (Z.leb (Zpos (XI (XO (XO (XO (XO (XO XH))))))) b)
       (Z.leb b (Zpos (XO (XI (XO (XI (XI (XO XH))))))))
  then Z.add b (Zpos (XO (XO (XO (XO (XO XH))))))
  else b

(** val forallb2 : (z -> z -> bool) -> bytes -> bytes -> bool **)

let rec forallb2 f a b =
  match a with
  | [] -> (match b with
           | [] -> true
           | _ :: _ -> false)
  | x :: a' ->
    (match b with
     | [] -> false
     | y :: b' -> (&&) (f x y) (forallb2 f a' b'))

(** val fold_eq : bytes -> bytes -> bool **)

let fold_eq a b =
  forallb2 (fun x y -> Z.eqb (lower x) (lower y)) a b

(** val has_prefix_fold : bytes -> bytes -> bool **)

let has_prefix_fold s p =
  (&&) (Nat.leb (length p) (length s)) (fold_eq (firstn (length p) s) p)

(** val has_suffix_fold : bytes -> bytes -> bool **)

let has_suffix_fold s p =
  (&&) (Nat.leb (length p) (length s))
    (fold_eq (skipn (sub (length s) (length p)) s) p)

(** val bitlen64 : z -> z **)

let bitlen64 = function
| Zpos p -> Z.add (Z.log2 (Zpos p)) (Zpos XH)
| _ -> Z0

(** val le_bytes : nat -> z -> bytes **)

let rec le_bytes n0 v =
  match n0 with
  | O -> []
  | S n' ->
    (Z.modulo v (Zpos (XO (XO (XO (XO (XO (XO (XO (XO XH)))))))))) :: 
      (le_bytes n'
        (Z.div v (Zpos (XO (XO (XO (XO (XO (XO (XO (XO XH)))))))))))

(** val put_le32 : bytes -> z -> bytes **)

let put_le32 b v =
  splice b Z0 (le_bytes (S (S (S (S O)))) v)

(** val put_le64 : bytes -> z -> bytes **)

let put_le64 b v =
  splice b Z0 (le_bytes (S (S (S (S (S (S (S (S O)))))))) v)

(** val proto_zeroSize : z **)

let proto_zeroSize =
  Zpos XH

(** val proto_noflags : z **)

let proto_noflags =
  Z0

(** val proto_inline : z **)

let proto_inline =
  Zpos XH

(** val proto_wantzero : z **)

let proto_wantzero =
  Zpos (XO XH)

(** val proto_toplevel : z **)

let proto_toplevel =
  Zpos (XO (XO (XO XH)))

(** val proto_varint : z **)

let proto_varint =
  Z0

(** val proto_fixed64 : z **)

let proto_fixed64 =
  Zpos XH

(** val proto_varlen : z **)

let proto_varlen =
  Zpos (XO XH)

(** val proto_fixed32 : z **)

let proto_fixed32 =
  Zpos (XI (XO XH))

(** val proto_embedded : z **)

let proto_embedded =
  Zpos XH

(** val proto_repeated : z **)

let proto_repeated =
  Zpos (XO XH)

(** val proto_zigzag : z **)

let proto_zigzag =
  Zpos (XO (XO XH))

type proto_error =
| Proto_errVarintOverflow
| Proto_ErrWireTypeUnknown
| Proto_ErrShortBuffer
| Proto_ErrUnexpectedEOF

(** val proto_encodeZigZag64 : z -> z **)

let proto_encodeZigZag64 v =
  xor64 (shl64 (w64 v) (Zpos XH))
    (w64 (shri64 v (Zpos (XI (XI (XI (XI (XI XH))))))))

(** val proto_decodeZigZag64 : z -> z **)

let proto_decodeZigZag64 v =
  xori64 (s64 (shr64 v (Zpos XH))) (negi64 (andi64 (s64 v) (Zpos XH)))

(** val proto_sizeOfVarint : z -> z **)

let proto_sizeOfVarint v =
  divi64 (addi64 (bitlen64 (or64 v (Zpos XH))) (Zpos (XO (XI XH)))) (Zpos (XI
    (XI XH)))

(** val proto_sizeOfVarlen : z -> z **)

let proto_sizeOfVarlen n0 =
  addi64 (proto_sizeOfVarint (w64 n0)) n0

(** val proto_sizeOfTag : z -> z -> z **)

let proto_sizeOfTag f t =
  proto_sizeOfVarint (or64 (shl64 f (Zpos (XI XH))) t)

(** val proto_encodeVarint :
    bytes -> z -> (z * proto_error option) * bytes **)

let proto_encodeVarint b v =
  let n0 = proto_sizeOfVarint v in
  if Z.ltb (len b) n0
  then ((Z0, (Some Proto_ErrShortBuffer)), b)
  else let k1_ = fun b0 -> ((n0, None), b0) in
       if Z.eqb n0 (Zpos XH)
       then let b0 = upd b Z0 (w8 v) in k1_ b0
       else if Z.eqb n0 (Zpos (XO XH))
            then let b0 =
                   upd b Z0
                     (or8 (w8 v) (Zpos (XO (XO (XO (XO (XO (XO (XO XH)))))))))
                 in
                 let b1 = upd b0 (Zpos XH) (w8 (shr64 v (Zpos (XI (XI XH)))))
                 in
                 k1_ b1
            else if Z.eqb n0 (Zpos (XI XH))
                 then let b0 =
                        upd b Z0
                          (or8 (w8 v) (Zpos (XO (XO (XO (XO (XO (XO (XO
                            XH)))))))))
                      in
                      let b1 =
                        upd b0 (Zpos XH)
                          (or8 (w8 (shr64 v (Zpos (XI (XI XH))))) (Zpos (XO
                            (XO (XO (XO (XO (XO (XO XH)))))))))
                      in
                      let b2 =
                        upd b1 (Zpos (XO XH))
                          (w8 (shr64 v (Zpos (XO (XI (XI XH))))))
                      in
                      k1_ b2
                 else if Z.eqb n0 (Zpos (XO (XO XH)))
                      then let b0 =
                             upd b Z0
                               (or8 (w8 v) (Zpos (XO (XO (XO (XO (XO (XO (XO
                                 XH)))))))))
                           in
                           let b1 =
                             upd b0 (Zpos XH)
                               (or8 (w8 (shr64 v (Zpos (XI (XI XH))))) (Zpos
                                 (XO (XO (XO (XO (XO (XO (XO XH)))))))))
                           in
                           let b2 =
                             upd b1 (Zpos (XO XH))
                               (or8 (w8 (shr64 v (Zpos (XO (XI (XI XH))))))
                                 (Zpos (XO (XO (XO (XO (XO (XO (XO XH)))))))))
                           in
                           let b3 =
                             upd b2 (Zpos (XI XH))
                               (w8 (shr64 v (Zpos (XI (XO (XI (XO XH)))))))
                           in
                           k1_ b3
                      else if Z.eqb n0 (Zpos (XI (XO XH)))
                           then let b0 =
                                  upd b Z0
                                    (or8 (w8 v) (Zpos (XO (XO (XO (XO (XO (XO
                                      (XO XH)))))))))
                                in
                                let b1 =
                                  upd b0 (Zpos XH)
                                    (or8 (w8 (shr64 v (Zpos (XI (XI XH)))))
                                      (Zpos (XO (XO (XO (XO (XO (XO (XO
                                      XH)))))))))
                                in
                                let b2 =
                                  upd b1 (Zpos (XO XH))
                                    (or8
                                      (w8 (shr64 v (Zpos (XO (XI (XI XH))))))
                                      (Zpos (XO (XO (XO (XO (XO (XO (XO
                                      XH)))))))))
                                in
                                let b3 =
                                  upd b2 (Zpos (XI XH))
                                    (or8
                                      (w8
                                        (shr64 v (Zpos (XI (XO (XI (XO
                                          XH))))))) (Zpos (XO (XO (XO (XO (XO
                                      (XO (XO XH)))))))))
                                in
                                let b4 =
                                  upd b3 (Zpos (XO (XO XH)))
                                    (w8
                                      (shr64 v (Zpos (XO (XO (XI (XI XH)))))))
                                in
                                k1_ b4
                           else if Z.eqb n0 (Zpos (XO (XI XH)))
                                then let b0 =
                                       upd b Z0
                                         (or8 (w8 v) (Zpos (XO (XO (XO (XO
                                           (XO (XO (XO XH)))))))))
                                     in
                                     let b1 =
                                       upd b0 (Zpos XH)
                                         (or8
                                           (w8 (shr64 v (Zpos (XI (XI XH)))))
                                           (Zpos (XO (XO (XO (XO (XO (XO (XO
                                           XH)))))))))
                                     in
                                     let b2 =
                                       upd b1 (Zpos (XO XH))
                                         (or8
                                           (w8
                                             (shr64 v (Zpos (XO (XI (XI
                                               XH)))))) (Zpos (XO (XO (XO (XO
                                           (XO (XO (XO XH)))))))))
                                     in
                                     let b3 =
                                       upd b2 (Zpos (XI XH))
                                         (or8
                                           (w8
                                             (shr64 v (Zpos (XI (XO (XI (XO
                                               XH))))))) (Zpos (XO (XO (XO
                                           (XO (XO (XO (XO XH)))))))))
                                     in
                                     let b4 =
                                       upd b3 (Zpos (XO (XO XH)))
                                         (or8
                                           (w8
                                             (shr64 v (Zpos (XO (XO (XI (XI
                                               XH))))))) (Zpos (XO (XO (XO
                                           (XO (XO (XO (XO XH)))))))))
                                     in
                                     let b5 =
                                       upd b4 (Zpos (XI (XO XH)))
                                         (w8
                                           (shr64 v (Zpos (XI (XI (XO (XO (XO
                                             XH))))))))
                                     in
                                     k1_ b5
                                else if Z.eqb n0 (Zpos (XI (XI XH)))
                                     then let b0 =
                                            upd b Z0
                                              (or8 (w8 v) (Zpos (XO (XO (XO
                                                (XO (XO (XO (XO XH)))))))))
                                          in
                                          let b1 =
                                            upd b0 (Zpos XH)
                                              (or8
                                                (w8
                                                  (shr64 v (Zpos (XI (XI
                                                    XH))))) (Zpos (XO (XO (XO
                                                (XO (XO (XO (XO XH)))))))))
                                          in
                                          let b2 =
                                            upd b1 (Zpos (XO XH))
                                              (or8
                                                (w8
                                                  (shr64 v (Zpos (XO (XI (XI
                                                    XH)))))) (Zpos (XO (XO
                                                (XO (XO (XO (XO (XO
                                                XH)))))))))
                                          in
                                          let b3 =
                                            upd b2 (Zpos (XI XH))
                                              (or8
                                                (w8
                                                  (shr64 v (Zpos (XI (XO (XI
                                                    (XO XH))))))) (Zpos (XO
                                                (XO (XO (XO (XO (XO (XO
                                                XH)))))))))
                                          in
                                          let b4 =
                                            upd b3 (Zpos (XO (XO XH)))
                                              (or8
                                                (w8
                                                  (shr64 v (Zpos (XO (XO (XI
                                                    (XI XH))))))) (Zpos (XO
                                                (XO (XO (XO (XO (XO (XO
                                                XH)))))))))
                                          in
                                          let b5 =
                                            upd b4 (Zpos (XI (XO XH)))
                                              (or8
                                                (w8
                                                  (shr64 v (Zpos (XI (XI (XO
                                                    (XO (XO XH)))))))) (Zpos
                                                (XO (XO (XO (XO (XO (XO (XO
                                                XH)))))))))
                                          in
                                          let b6 =
                                            upd b5 (Zpos (XO (XI XH)))
                                              (w8
                                                (shr64 v (Zpos (XO (XI (XO
                                                  (XI (XO XH))))))))
                                          in
                                          k1_ b6
                                     else if Z.eqb n0 (Zpos (XO (XO (XO XH))))
                                          then let b0 =
                                                 upd b Z0
                                                   (or8 (w8 v) (Zpos (XO (XO
                                                     (XO (XO (XO (XO (XO
                                                     XH)))))))))
                                               in
                                               let b1 =
                                                 upd b0 (Zpos XH)
                                                   (or8
                                                     (w8
                                                       (shr64 v (Zpos (XI (XI
                                                         XH))))) (Zpos (XO
                                                     (XO (XO (XO (XO (XO (XO
                                                     XH)))))))))
                                               in
                                               let b2 =
                                                 upd b1 (Zpos (XO XH))
                                                   (or8
                                                     (w8
                                                       (shr64 v (Zpos (XO (XI
                                                         (XI XH)))))) (Zpos
                                                     (XO (XO (XO (XO (XO (XO
                                                     (XO XH)))))))))
                                               in
                                               let b3 =
                                                 upd b2 (Zpos (XI XH))
                                                   (or8
                                                     (w8
                                                       (shr64 v (Zpos (XI (XO
                                                         (XI (XO XH)))))))
                                                     (Zpos (XO (XO (XO (XO
                                                     (XO (XO (XO XH)))))))))
                                               in
                                               let b4 =
                                                 upd b3 (Zpos (XO (XO XH)))
                                                   (or8
                                                     (w8
                                                       (shr64 v (Zpos (XO (XO
                                                         (XI (XI XH)))))))
                                                     (Zpos (XO (XO (XO (XO
                                                     (XO (XO (XO XH)))))))))
                                               in
                                               let b5 =
                                                 upd b4 (Zpos (XI (XO XH)))
                                                   (or8
                                                     (w8
                                                       (shr64 v (Zpos (XI (XI
                                                         (XO (XO (XO XH))))))))
                                                     (Zpos (XO (XO (XO (XO
                                                     (XO (XO (XO XH)))))))))
                                               in
                                               let b6 =
                                                 upd b5 (Zpos (XO (XI XH)))
                                                   (or8
                                                     (w8
                                                       (shr64 v (Zpos (XO (XI
                                                         (XO (XI (XO XH))))))))
                                                     (Zpos (XO (XO (XO (XO
                                                     (XO (XO (XO XH)))))))))
                                               in
                                               let b7 =
                                                 upd b6 (Zpos (XI (XI XH)))
                                                   (w8
                                                     (shr64 v (Zpos (XI (XO
                                                       (XO (XO (XI XH))))))))
                                               in
                                               k1_ b7
                                          else if Z.eqb n0 (Zpos (XI (XO (XO
                                                    XH))))
                                               then let b0 =
                                                      upd b Z0
                                                        (or8 (w8 v) (Zpos (XO
                                                          (XO (XO (XO (XO (XO
                                                          (XO XH)))))))))
                                                    in
                                                    let b1 =
                                                      upd b0 (Zpos XH)
                                                        (or8
                                                          (w8
                                                            (shr64 v (Zpos
                                                              (XI (XI XH)))))
                                                          (Zpos (XO (XO (XO
                                                          (XO (XO (XO (XO
                                                          XH)))))))))
                                                    in
                                                    let b2 =
                                                      upd b1 (Zpos (XO XH))
                                                        (or8
                                                          (w8
                                                            (shr64 v (Zpos
                                                              (XO (XI (XI
                                                              XH)))))) (Zpos
                                                          (XO (XO (XO (XO (XO
                                                          (XO (XO XH)))))))))
                                                    in
                                                    let b3 =
                                                      upd b2 (Zpos (XI XH))
                                                        (or8
                                                          (w8
                                                            (shr64 v (Zpos
                                                              (XI (XO (XI (XO
                                                              XH))))))) (Zpos
                                                          (XO (XO (XO (XO (XO
                                                          (XO (XO XH)))))))))
                                                    in
                                                    let b4 =
                                                      upd b3 (Zpos (XO (XO
                                                        XH)))
                                                        (or8
                                                          (w8
                                                            (shr64 v (Zpos
                                                              (XO (XO (XI (XI
                                                              XH))))))) (Zpos
                                                          (XO (XO (XO (XO (XO
                                                          (XO (XO XH)))))))))
                                                    in
                                                    let b5 =
                                                      upd b4 (Zpos (XI (XO
                                                        XH)))
                                                        (or8
                                                          (w8
                                                            (shr64 v (Zpos
                                                              (XI (XI (XO (XO
                                                              (XO XH))))))))
                                                          (Zpos (XO (XO (XO
                                                          (XO (XO (XO (XO
                                                          XH)))))))))
                                                    in
                                                    let b6 =
                                                      upd b5 (Zpos (XO (XI
                                                        XH)))
                                                        (or8
                                                          (w8
                                                            (shr64 v (Zpos
                                                              (XO (XI (XO (XI
                                                              (XO XH))))))))
                                                          (Zpos (XO (XO (XO
                                                          (XO (XO (XO (XO
                                                          XH)))))))))
                                                    in
                                                    let b7 =
                                                      upd b6 (Zpos (XI (XI
                                                        XH)))
                                                        (or8
                                                          (w8
                                                            (shr64 v (Zpos
                                                              (XI (XO (XO (XO
                                                              (XI XH))))))))
                                                          (Zpos (XO (XO (XO
                                                          (XO (XO (XO (XO
                                                          XH)))))))))
                                                    in
                                                    let b8 =
                                                      upd b7 (Zpos (XO (XO
                                                        (XO XH))))
                                                        (w8
                                                          (shr64 v (Zpos (XO
                                                            (XO (XO (XI (XI
                                                            XH))))))))
                                                    in
                                                    k1_ b8
                                               else if Z.eqb n0 (Zpos (XO (XI
                                                         (XO XH))))
                                                    then let b0 =
                                                           upd b Z0
                                                             (or8 (w8 v)
                                                               (Zpos (XO (XO
                                                               (XO (XO (XO
                                                               (XO (XO
                                                               XH)))))))))
                                                         in
                                                         let b1 =
                                                           upd b0 (Zpos XH)
                                                             (or8
                                                               (w8
                                                                 (shr64 v
                                                                   (Zpos (XI
                                                                   (XI XH)))))
                                                               (Zpos (XO (XO
                                                               (XO (XO (XO
                                                               (XO (XO
                                                               XH)))))))))
                                                         in
                                                         let b2 =
                                                           upd b1 (Zpos (XO
                                                             XH))
                                                             (or8
                                                               (w8
                                                                 (shr64 v
                                                                   (Zpos (XO
                                                                   (XI (XI
                                                                   XH))))))
                                                               (Zpos (XO (XO
                                                               (XO (XO (XO
                                                               (XO (XO
                                                               XH)))))))))
                                                         in
                                                         let b3 =
                                                           upd b2 (Zpos (XI
                                                             XH))
                                                             (or8
                                                               (w8
                                                                 (shr64 v
                                                                   (Zpos (XI
                                                                   (XO (XI
                                                                   (XO
                                                                   XH)))))))
                                                               (Zpos (XO (XO
                                                               (XO (XO (XO
                                                               (XO (XO
                                                               XH)))))))))
                                                         in
                                                         let b4 =
                                                           upd b3 (Zpos (XO
                                                             (XO XH)))
                                                             (or8
                                                               (w8
                                                                 (shr64 v
                                                                   (Zpos (XO
                                                                   (XO (XI
                                                                   (XI
                                                                   XH)))))))
                                                               (Zpos (XO (XO
                                                               (XO (XO (XO
                                                               (XO (XO
                                                               XH)))))))))
                                                         in
                                                         let b5 =
                                                           upd b4 (Zpos (XI
                                                             (XO XH)))
                                                             (or8
                                                               (w8
                                                                 (shr64 v
                                                                   (Zpos (XI
                                                                   (XI (XO
                                                                   (XO (XO
                                                                   XH))))))))
                                                               (Zpos (XO (XO
                                                               (XO (XO (XO
                                                               (XO (XO
                                                               XH)))))))))
                                                         in
                                                         let b6 =
                                                           upd b5 (Zpos (XO
                                                             (XI XH)))
                                                             (or8
                                                               (w8
                                                                 (shr64 v
                                                                   (Zpos (XO
                                                                   (XI (XO
                                                                   (XI (XO
                                                                   XH))))))))
                                                               (Zpos (XO (XO
                                                               (XO (XO (XO
                                                               (XO (XO
                                                               XH)))))))))
                                                         in
                                                         let b7 =
                                                           upd b6 (Zpos (XI
                                                             (XI XH)))
                                                             (or8
                                                               (w8
                                                                 (shr64 v
                                                                   (Zpos (XI
                                                                   (XO (XO
                                                                   (XO (XI
                                                                   XH))))))))
                                                               (Zpos (XO (XO
                                                               (XO (XO (XO
                                                               (XO (XO
                                                               XH)))))))))
                                                         in
                                                         let b8 =
                                                           upd b7 (Zpos (XO
                                                             (XO (XO XH))))
                                                             (or8
                                                               (w8
                                                                 (shr64 v
                                                                   (Zpos (XO
                                                                   (XO (XO
                                                                   (XI (XI
                                                                   XH))))))))
                                                               (Zpos (XO (XO
                                                               (XO (XO (XO
                                                               (XO (XO
                                                               XH)))))))))
                                                         in
                                                         let b9 =
                                                           upd b8 (Zpos (XI
                                                             (XO (XO XH))))
                                                             (w8
                                                               (shr64 v (Zpos
                                                                 (XI (XI (XI
                                                                 (XI (XI
                                                                 XH))))))))
                                                         in
                                                         k1_ b9
                                                    else k1_ b

(** val proto_encodeLE32 : bytes -> z -> (z * proto_error option) * bytes **)

let proto_encodeLE32 b v =
  if Z.ltb (len b) (Zpos (XO (XO XH)))
  then ((Z0, (Some Proto_ErrShortBuffer)), b)
  else let b0 = put_le32 b v in (((Zpos (XO (XO XH))), None), b0)

(** val proto_encodeLE64 : bytes -> z -> (z * proto_error option) * bytes **)

let proto_encodeLE64 b v =
  if Z.ltb (len b) (Zpos (XO (XO (XO XH))))
  then ((Z0, (Some Proto_ErrShortBuffer)), b)
  else let b0 = put_le64 b v in (((Zpos (XO (XO (XO XH)))), None), b0)

(** val proto_encodeTag :
    bytes -> z -> z -> (z * proto_error option) * bytes **)

let proto_encodeTag b f t =
  proto_encodeVarint b (or64 (shl64 f (Zpos (XI XH))) t)

(** val proto_decodeVarint : bytes -> (z * z) * proto_error option **)

let proto_decodeVarint b =
  if (&&) (negb (Z.eqb (len b) Z0))
       (Z.ltb (at_ b Z0) (Zpos (XO (XO (XO (XO (XO (XO (XO XH)))))))))
  then (((at_ b Z0), (Zpos XH)), None)
  else let x = Z0 in
       let s = Z0 in
       let k1_ = fun x0 _ -> ((x0, (len b)), (Some Proto_ErrUnexpectedEOF)) in
       let rec loop2_ l3_ i4_ x0 s0 =
         match l3_ with
         | [] -> k1_ x0 s0
         | h5_ :: t6_ ->
           if Z.ltb h5_ (Zpos (XO (XO (XO (XO (XO (XO (XO XH))))))))
           then if (||) (Z.gtb i4_ (Zpos (XI (XO (XO XH)))))
                     ((&&) (Z.eqb i4_ (Zpos (XI (XO (XO XH)))))
                       (Z.gtb h5_ (Zpos XH)))
                then ((Z0, i4_), (Some Proto_errVarintOverflow))
                else (((or64 x0 (shl64 h5_ s0)), (addi64 i4_ (Zpos XH))),
                       None)
           else let x1 =
                  or64 x0
                    (shl64 (and8 h5_ (Zpos (XI (XI (XI (XI (XI (XI XH))))))))
                      s0)
                in
                let s1 = add64 s0 (Zpos (XI (XI XH))) in
                loop2_ t6_ (Z.add i4_ (Zpos XH)) x1 s1
       in loop2_ b Z0 x s

(** val proto_decodeLE32 : bytes -> (z * z) * proto_error option **)

let proto_decodeLE32 b =
  if Z.ltb (len b) (Zpos (XO (XO XH)))
  then ((Z0, Z0), (Some Proto_ErrUnexpectedEOF))
  else (((le32 b), (Zpos (XO (XO XH)))), None)

(** val proto_decodeLE64 : bytes -> (z * z) * proto_error option **)

let proto_decodeLE64 b =
  if Z.ltb (len b) (Zpos (XO (XO (XO XH))))
  then ((Z0, Z0), (Some Proto_ErrUnexpectedEOF))
  else (((le64 b), (Zpos (XO (XO (XO XH))))), None)

(** val proto_decodeTag : bytes -> ((z * z) * z) * proto_error option **)

let proto_decodeTag b =
  let (p, err) = proto_decodeVarint b in
  let (v, n0) = p in
  ((((shr64 v (Zpos (XI XH))), (and64 v (Zpos (XI (XI XH))))), n0), err)

(** val proto_decodeVarlen : bytes -> (bytes * z) * proto_error option **)

let proto_decodeVarlen b =
  let (p, err) = proto_decodeVarint b in
  let (v, n0) = p in
  if negb (isnil err)
  then (([], n0), err)
  else if Z.gtb v (w64 (subi64 (len b) n0))
       then (([], n0), (Some Proto_ErrUnexpectedEOF))
       else (((slice b n0 (addi64 n0 (s64 v))), (addi64 n0 (s64 v))), None)

(** val proto_flags_has : z -> z -> bool **)

let proto_flags_has f x =
  negb (Z.eqb (and64 f x) Z0)

(** val proto_flags_with : z -> z -> z **)

let proto_flags_with =
  or64

(** val proto_flags_without : z -> z -> z **)

let proto_flags_without f x =
  and64 f (not64 x)

(** val proto_flags_uint64 : z -> z -> z **)

let proto_flags_uint64 f i =
  if proto_flags_has f proto_zigzag then proto_encodeZigZag64 i else w64 i

(** val proto_flags_int64 : z -> z -> z **)

let proto_flags_int64 f u =
  if proto_flags_has f proto_zigzag then proto_decodeZigZag64 u else s64 u

type 'a res =
| Ok of 'a
| Panic
| OutOfFuel

(** val rbind : 'a1 res -> ('a1 -> 'a2 res) -> 'a2 res **)

let rbind r f =
  match r with
  | Ok a -> f a
  | Panic -> Panic
  | OutOfFuel -> OutOfFuel

(** val cfrom : bytes -> z -> bytes res **)

let cfrom b i =
  if (&&) (Z.leb Z0 i) (Z.leb i (len b)) then Ok (slice_from b i) else Panic

(** val cslice : bytes -> z -> z -> bytes res **)

let cslice b i j =
  if (&&) ((&&) (Z.leb Z0 i) (Z.leb i j)) (Z.leb j (len b))
  then Ok (slice b i j)
  else Panic

type ptag = { tag_wire : z; tag_number : z; tag_repeated : bool;
              tag_zigzag : bool }

type gty =
| TBool
| TInt
| TInt32
| TInt64
| TUint
| TUint32
| TUint64
| TFloat32
| TFloat64
| TString
| TBytes
| TByteArray of nat
| TPtr of gty
| TStruct of gfield list
| TSlice of gty
| TMap of gty * gty
| TRawMessage
and gfield =
| GField of bool * ptag option * gty

type val0 =
| VBool of bool
| VInt of z
| VStr of bytes
| VBytes of bool * bytes
| VArr of bytes
| VPtr of val0 option
| VStruct of val0 list
| VSlice of val0 list
| VMap of bool * (val0 * val0) list
| VRaw of bool * bytes

type codec =
| CBool
| CInt
| CInt32
| CInt64
| CUint
| CUint32
| CUint64
| CFixed32
| CFixed64
| CFloat32
| CFloat64
| CString
| CBytes
| CByteArray of nat
| CPtr of gty * codec
| CStruct of bool * sfield list
| CSlice of z * z * bool * gty * codec
| CMap of z * z * z * gty * gty * codec * codec
| CMessage
| CUnsupported
and sfield =
| SField of z * z * z * gty * codec

(** val wire : codec -> z **)

let rec wire = function
| CBool -> proto_varint
| CInt -> proto_varint
| CInt32 -> proto_varint
| CInt64 -> proto_varint
| CUint -> proto_varint
| CUint32 -> proto_varint
| CUint64 -> proto_varint
| CFixed32 -> proto_fixed32
| CFixed64 -> proto_fixed64
| CFloat32 -> proto_fixed32
| CFloat64 -> proto_fixed64
| CPtr (_, c') -> wire c'
| CSlice (_, wt, _, _, _) -> wt
| _ -> proto_varlen

(** val base_ty : gty -> gty **)

let rec base_ty t = match t with
| TPtr t' -> base_ty t'
| _ -> t

(** val is_struct : gty -> bool **)

let is_struct = function
| TStruct _ -> true
| _ -> false

(** val inlined_ty : gty -> bool **)

let rec inlined_ty = function
| TPtr _ -> true
| TStruct fs ->
  (match fs with
   | [] -> false
   | g :: l ->
     let GField (_, _, ft) = g in
     (match l with
      | [] -> inlined_ty ft
      | _ :: _ -> false))
| TMap (_, _) -> true
| _ -> false

(** val zero_val : gty -> val0 **)

let rec zero_val = function
| TBool -> VBool false
| TString -> VStr []
| TBytes -> VBytes (false, [])
| TByteArray n0 -> VArr (repeat Z0 n0)
| TPtr _ -> VPtr None
| TStruct fs ->
  VStruct
    (let rec zs = function
     | [] -> []
     | g :: r -> let GField (_, _, t0) = g in (zero_val t0) :: (zs r)
     in zs fs)
| TSlice _ -> VSlice []
| TMap (_, _) -> VMap (false, [])
| TRawMessage -> VRaw (false, [])
| _ -> VInt Z0

(** val pointers_to : gty -> codec -> codec **)

let rec pointers_to t c =
  match t with
  | TPtr t' -> CPtr (t', (pointers_to t' c))
  | _ -> c

(** val codec_of : gty -> codec **)

let rec codec_of t = match t with
| TBool -> CBool
| TInt -> CInt
| TInt32 -> CInt32
| TInt64 -> CInt64
| TUint -> CUint
| TUint32 -> CUint32
| TUint64 -> CUint64
| TFloat32 -> CFloat32
| TFloat64 -> CFloat64
| TString -> CString
| TBytes -> CBytes
| TByteArray n0 -> CByteArray n0
| TPtr t' -> CPtr (t', (codec_of t'))
| TStruct fs ->
  CStruct ((inlined_ty t),
    (let rec go fs0 number =
       match fs0 with
       | [] -> []
       | g :: r ->
         let GField (exported, tag, ft) = g in
         if exported
         then let num0 = w16 number in
              let (p, forced) =
                match tag with
                | Some tg ->
                  let fl =
                    Z.add (if tg.tag_repeated then proto_repeated else Z0)
                      (if tg.tag_zigzag then proto_zigzag else Z0)
                  in
                  let forced =
                    if Z.eqb tg.tag_wire proto_fixed32
                    then (match base_ty ft with
                          | TBool -> None
                          | TInt -> None
                          | TInt32 -> None
                          | TInt64 -> None
                          | TUint -> None
                          | TUint32 -> Some (pointers_to ft CFixed32)
                          | TFloat32 -> Some (pointers_to ft CFloat32)
                          | _ -> None)
                    else if Z.eqb tg.tag_wire proto_fixed64
                         then (match base_ty ft with
                               | TUint64 -> Some (pointers_to ft CFixed64)
                               | TFloat64 -> Some (pointers_to ft CFloat64)
                               | _ -> None)
                         else None
                  in
                  (((w16 tg.tag_number), fl), forced)
                | None -> ((num0, Z0), None)
              in
              let (num, fl0) = p in
              let (fl, c) =
                match forced with
                | Some c -> (fl0, c)
                | None ->
                  (match ft with
                   | TSlice et ->
                     let emb = is_struct (base_ty et) in
                     let fl1 =
                       Z.coq_lor
                         (if emb then Z.coq_lor fl0 proto_embedded else fl0)
                         proto_repeated
                     in
                     let ec = codec_of et in
                     (fl1, (CSlice (num, (wire ec), emb, et, ec)))
                   | TMap (kt, vt) ->
                     let kf =
                       if is_struct (base_ty kt) then proto_embedded else Z0
                     in
                     let vf =
                       if is_struct (base_ty vt) then proto_embedded else Z0
                     in
                     ((Z.coq_lor fl0
                        (Z.coq_lor proto_embedded proto_repeated)), (CMap
                     (num, kf, vf, kt, vt, (codec_of kt), (codec_of vt))))
                   | _ ->
                     if is_struct (base_ty ft)
                     then ((Z.coq_lor fl0 proto_embedded), (codec_of ft))
                     else (fl0, (codec_of ft)))
              in
              (SField (num, (w8 (proto_sizeOfTag num (wire c))), fl, ft,
              c)) :: (go r (Z.add number (Zpos XH)))
         else go r number
     in go fs (Zpos XH)))
| TRawMessage -> CMessage
| _ -> CUnsupported

(** val sf_number : sfield -> z **)

let sf_number = function
| SField (n0, _, _, _, _) -> n0

(** val sf_tagsize : sfield -> z **)

let sf_tagsize = function
| SField (_, ts, _, _, _) -> ts

(** val sf_flags : sfield -> z **)

let sf_flags = function
| SField (_, _, fl, _, _) -> fl

(** val sf_ty : sfield -> gty **)

let sf_ty = function
| SField (_, _, _, t, _) -> t

(** val sf_codec : sfield -> codec **)

let sf_codec = function
| SField (_, _, _, _, c) -> c

(** val sf_embedded : sfield -> bool **)

let sf_embedded f =
  negb (Z.eqb (Z.coq_land (sf_flags f) proto_embedded) Z0)

(** val sf_repeated : sfield -> bool **)

let sf_repeated f =
  negb (Z.eqb (Z.coq_land (sf_flags f) proto_repeated) Z0)

(** val make_flags : sfield -> z -> z **)

let make_flags f base =
  Z.coq_lor base (Z.coq_land (sf_flags f) proto_zigzag)

(** val has : z -> z -> bool **)

let has =
  proto_flags_has

(** val without : z -> z -> z **)

let without =
  proto_flags_without

(** val with_ : z -> z -> z **)

let with_ =
  proto_flags_with

(** val all_zero : bytes -> bool **)

let all_zero s =
  forallb (fun b -> Z.eqb b Z0) s

(** val f32_nonzero : z -> bool **)

let f32_nonzero bits =
  negb
    (Z.eqb
      (Z.coq_land bits (Zpos (XI (XI (XI (XI (XI (XI (XI (XI (XI (XI (XI (XI
        (XI (XI (XI (XI (XI (XI (XI (XI (XI (XI (XI (XI (XI (XI (XI (XI (XI
        (XI XH)))))))))))))))))))))))))))))))) Z0)

(** val f64_nonzero : z -> bool **)

let f64_nonzero bits =
  negb
    (Z.eqb
      (Z.coq_land bits (Zpos (XI (XI (XI (XI (XI (XI (XI (XI (XI (XI (XI (XI
        (XI (XI (XI (XI (XI (XI (XI (XI (XI (XI (XI (XI (XI (XI (XI (XI (XI
        (XI (XI (XI (XI (XI (XI (XI (XI (XI (XI (XI (XI (XI (XI (XI (XI (XI
        (XI (XI (XI (XI (XI (XI (XI (XI (XI (XI (XI (XI (XI (XI (XI (XI
        XH)))))))))))))))))))))))))))))))))))))))))))))))))))))))))))))))) Z0)

(** val f32_signbit : z -> bool **)

let f32_signbit bits =
  Z.leb (Zpos (XO (XO (XO (XO (XO (XO (XO (XO (XO (XO (XO (XO (XO (XO (XO (XO
    (XO (XO (XO (XO (XO (XO (XO (XO (XO (XO (XO (XO (XO (XO (XO
    XH)))))))))))))))))))))))))))))))) bits

(** val f64_signbit : z -> bool **)

let f64_signbit bits =
  Z.leb (Zpos (XO (XO (XO (XO (XO (XO (XO (XO (XO (XO (XO (XO (XO (XO (XO (XO
    (XO (XO (XO (XO (XO (XO (XO (XO (XO (XO (XO (XO (XO (XO (XO (XO (XO (XO
    (XO (XO (XO (XO (XO (XO (XO (XO (XO (XO (XO (XO (XO (XO (XO (XO (XO (XO
    (XO (XO (XO (XO (XO (XO (XO (XO (XO (XO (XO
    XH)))))))))))))))))))))))))))))))))))))))))))))))))))))))))))))))) bits

(** val size_of : codec -> val0 option -> z -> z **)

let rec size_of c ov flags =
  match c with
  | CBool ->
    (match ov with
     | Some v ->
       (match v with
        | VBool x -> if (||) x (has flags proto_wantzero) then Zpos XH else Z0
        | _ -> Z0)
     | None -> Z0)
  | CInt ->
    (match ov with
     | Some v0 ->
       (match v0 with
        | VInt v ->
          if (||) (negb (Z.eqb v Z0)) (has flags proto_wantzero)
          then proto_sizeOfVarint (proto_flags_uint64 flags v)
          else Z0
        | _ -> Z0)
     | None -> Z0)
  | CInt32 ->
    (match ov with
     | Some v0 ->
       (match v0 with
        | VInt v ->
          if (||) (negb (Z.eqb v Z0)) (has flags proto_wantzero)
          then proto_sizeOfVarint (proto_flags_uint64 flags v)
          else Z0
        | _ -> Z0)
     | None -> Z0)
  | CInt64 ->
    (match ov with
     | Some v0 ->
       (match v0 with
        | VInt v ->
          if (||) (negb (Z.eqb v Z0)) (has flags proto_wantzero)
          then proto_sizeOfVarint (proto_flags_uint64 flags v)
          else Z0
        | _ -> Z0)
     | None -> Z0)
  | CFixed32 ->
    (match ov with
     | Some v0 ->
       (match v0 with
        | VInt v ->
          if (||) (negb (Z.eqb v Z0)) (has flags proto_wantzero)
          then Zpos (XO (XO XH))
          else Z0
        | _ -> Z0)
     | None -> Z0)
  | CFixed64 ->
    (match ov with
     | Some v0 ->
       (match v0 with
        | VInt v ->
          if (||) (negb (Z.eqb v Z0)) (has flags proto_wantzero)
          then Zpos (XO (XO (XO XH)))
          else Z0
        | _ -> Z0)
     | None -> Z0)
  | CFloat32 ->
    (match ov with
     | Some v0 ->
       (match v0 with
        | VInt v ->
          if (||) ((||) (f32_nonzero v) (has flags proto_wantzero))
               (f32_signbit v)
          then Zpos (XO (XO XH))
          else Z0
        | _ -> Z0)
     | None -> Z0)
  | CFloat64 ->
    (match ov with
     | Some v0 ->
       (match v0 with
        | VInt v ->
          if (||) ((||) (f64_nonzero v) (has flags proto_wantzero))
               (f64_signbit v)
          then Zpos (XO (XO (XO XH)))
          else Z0
        | _ -> Z0)
     | None -> Z0)
  | CString ->
    (match ov with
     | Some v ->
       (match v with
        | VStr s ->
          if (||) (negb (Z.eqb (len s) Z0)) (has flags proto_wantzero)
          then proto_sizeOfVarlen (len s)
          else Z0
        | _ -> Z0)
     | None -> Z0)
  | CBytes ->
    (match ov with
     | Some v ->
       (match v with
        | VBytes (nn, s) ->
          if (||) nn (has flags proto_wantzero)
          then proto_sizeOfVarlen (len s)
          else Z0
        | _ -> Z0)
     | None -> Z0)
  | CByteArray n0 ->
    (match ov with
     | Some v ->
       (match v with
        | VArr s ->
          if (||) (has flags proto_wantzero) (negb (all_zero s))
          then proto_sizeOfVarlen (Z.of_nat n0)
          else Z0
        | _ -> Z0)
     | None -> Z0)
  | CPtr (_, c') ->
    (match ov with
     | Some v ->
       (match v with
        | VPtr o ->
          size_of c' o (with_ (without flags proto_inline) proto_wantzero)
        | _ -> Z0)
     | None -> Z0)
  | CStruct (inl_, fields) ->
    (match ov with
     | Some v ->
       (match v with
        | VStruct vs ->
          let flags0 =
            if inl_
            then without flags proto_toplevel
            else without flags (Z.coq_lor proto_inline proto_toplevel)
          in
          let pass =
            let rec pass rep fs vs0 flags1 n0 =
              match fs with
              | [] -> (flags1, n0)
              | f :: fr ->
                (match vs0 with
                 | [] -> (flags1, n0)
                 | v0 :: vr ->
                   if eqb (sf_repeated f) rep
                   then let size1 =
                          size_of (sf_codec f) (Some v0) (make_flags f flags1)
                        in
                        if Z.gtb size1 Z0
                        then let n' =
                               if rep
                               then Z.add n0 size1
                               else Z.add
                                      (Z.add (Z.add n0 (sf_tagsize f)) size1)
                                      (if sf_embedded f
                                       then proto_sizeOfVarint size1
                                       else Z0)
                             in
                             pass rep fr vr (without flags1 proto_wantzero) n'
                        else pass rep fr vr flags1 n0
                   else pass rep fr vr flags1 n0)
            in pass
          in
          let (flags1, n1) = pass false fields vs flags0 Z0 in
          let (_, n2) = pass true fields vs flags1 n1 in n2
        | _ -> Z0)
     | None -> Z0)
  | CSlice (number, wt, emb, _, c') ->
    (match ov with
     | Some v ->
       (match v with
        | VSlice es ->
          let tagSize = proto_sizeOfTag number wt in
          fold_left (fun n0 e ->
            let size1 = size_of c' (Some e) proto_wantzero in
            Z.add (Z.add (Z.add n0 tagSize) size1)
              (if emb then proto_sizeOfVarint size1 else Z0)) es Z0
        | _ -> Z0)
     | None -> Z0)
  | CMap (number, kf, vf, _, _, kc, vc) ->
    (match ov with
     | Some v ->
       (match v with
        | VMap (_, es) ->
          let mapTagSize = proto_sizeOfTag number proto_varlen in
          let keyTagSize = proto_sizeOfTag (Zpos XH) (wire kc) in
          let valTagSize = proto_sizeOfTag (Zpos (XO XH)) (wire vc) in
          let n0 =
            fold_left (fun n0 kv ->
              let keySize = size_of kc (Some (fst kv)) proto_wantzero in
              let valSize = size_of vc (Some (snd kv)) proto_wantzero in
              let elemSize = Z0 in
              let elemSize0 =
                if Z.gtb keySize Z0
                then Z.add (Z.add (Z.add elemSize keyTagSize) keySize)
                       (if negb (Z.eqb (Z.coq_land kf proto_embedded) Z0)
                        then proto_sizeOfVarint keySize
                        else Z0)
                else elemSize
              in
              let elemSize1 =
                if Z.gtb valSize Z0
                then Z.add (Z.add (Z.add elemSize0 valTagSize) valSize)
                       (if negb (Z.eqb (Z.coq_land vf proto_embedded) Z0)
                        then proto_sizeOfVarint valSize
                        else Z0)
                else elemSize0
              in
              Z.add
                (Z.add (Z.add n0 mapTagSize) (proto_sizeOfVarint elemSize1))
                elemSize1) es Z0
          in
          if Z.eqb n0 Z0 then Z.add mapTagSize proto_zeroSize else n0
        | _ -> Z0)
     | None -> Z0)
  | CMessage ->
    (match ov with
     | Some v ->
       (match v with
        | VRaw (_, s) ->
          if has flags proto_toplevel
          then len s
          else proto_sizeOfVarlen (len s)
        | _ -> Z0)
     | None -> Z0)
  | CUnsupported -> Z0
  | _ ->
    (match ov with
     | Some v0 ->
       (match v0 with
        | VInt v ->
          if (||) (negb (Z.eqb v Z0)) (has flags proto_wantzero)
          then proto_sizeOfVarint v
          else Z0
        | _ -> Z0)
     | None -> Z0)

type eres = ((z * proto_error option) * bytes) res

(** val ret : z -> proto_error option -> bytes -> eres **)

let ret n0 e b =
  Ok ((n0, e), b)

(** val in_from : bytes -> z -> (bytes -> eres) -> eres **)

let in_from b off f =
  rbind (cfrom b off) (fun w ->
    rbind (f w) (fun pat ->
      let (p, w') = pat in let (n0, e) = p in Ok ((n0, e), (splice b off w'))))

(** val in_window : bytes -> z -> z -> (bytes -> eres) -> eres **)

let in_window b off size1 f =
  rbind (cslice b off (Z.add off size1)) (fun w ->
    rbind (f w) (fun pat ->
      let (p, w') = pat in let (n0, e) = p in Ok ((n0, e), (splice b off w'))))

(** val lift3 : ((z * proto_error option) * bytes) -> eres **)

let lift3 r =
  Ok r

(** val copy_at : bytes -> z -> bytes -> (z * bytes) res **)

let copy_at b off src =
  rbind (cfrom b off) (fun w ->
    let n0 = Z.min (len w) (len src) in
    Ok (n0, (splice b off (slice_to src n0))))

(** val encode_varlen_bytes : bytes -> bytes -> eres **)

let encode_varlen_bytes b s =
  let (p, b0) = proto_encodeVarint b (w64 (len s)) in
  let (n0, err) = p in
  (match err with
   | Some _ -> ret n0 err b0
   | None ->
     rbind (copy_at b0 n0 s) (fun pat ->
       let (c, b1) = pat in
       ret (Z.add n0 c)
         (if Z.ltb c (len s) then Some Proto_ErrShortBuffer else None) b1))

(** val encode : codec -> bytes -> val0 option -> z -> eres **)

let rec encode c b ov flags =
  match c with
  | CBool ->
    (match ov with
     | Some v ->
       (match v with
        | VBool x ->
          if (||) x (has flags proto_wantzero)
          then if Z.eqb (len b) Z0
               then ret Z0 (Some Proto_ErrShortBuffer) b
               else ret (Zpos XH) None (upd b Z0 (if x then Zpos XH else Z0))
          else ret Z0 None b
        | _ -> ret Z0 None b)
     | None -> ret Z0 None b)
  | CInt ->
    (match ov with
     | Some v0 ->
       (match v0 with
        | VInt v ->
          if (||) (negb (Z.eqb v Z0)) (has flags proto_wantzero)
          then lift3 (proto_encodeVarint b (proto_flags_uint64 flags v))
          else ret Z0 None b
        | _ -> ret Z0 None b)
     | None -> ret Z0 None b)
  | CInt32 ->
    (match ov with
     | Some v0 ->
       (match v0 with
        | VInt v ->
          if (||) (negb (Z.eqb v Z0)) (has flags proto_wantzero)
          then lift3 (proto_encodeVarint b (proto_flags_uint64 flags v))
          else ret Z0 None b
        | _ -> ret Z0 None b)
     | None -> ret Z0 None b)
  | CInt64 ->
    (match ov with
     | Some v0 ->
       (match v0 with
        | VInt v ->
          if (||) (negb (Z.eqb v Z0)) (has flags proto_wantzero)
          then lift3 (proto_encodeVarint b (proto_flags_uint64 flags v))
          else ret Z0 None b
        | _ -> ret Z0 None b)
     | None -> ret Z0 None b)
  | CFixed32 ->
    (match ov with
     | Some v0 ->
       (match v0 with
        | VInt v ->
          if (||) (negb (Z.eqb v Z0)) (has flags proto_wantzero)
          then lift3 (proto_encodeLE32 b v)
          else ret Z0 None b
        | _ -> ret Z0 None b)
     | None -> ret Z0 None b)
  | CFixed64 ->
    (match ov with
     | Some v0 ->
       (match v0 with
        | VInt v ->
          if (||) (negb (Z.eqb v Z0)) (has flags proto_wantzero)
          then lift3 (proto_encodeLE64 b v)
          else ret Z0 None b
        | _ -> ret Z0 None b)
     | None -> ret Z0 None b)
  | CFloat32 ->
    (match ov with
     | Some v0 ->
       (match v0 with
        | VInt v ->
          if (||) ((||) (f32_nonzero v) (has flags proto_wantzero))
               (f32_signbit v)
          then lift3 (proto_encodeLE32 b v)
          else ret Z0 None b
        | _ -> ret Z0 None b)
     | None -> ret Z0 None b)
  | CFloat64 ->
    (match ov with
     | Some v0 ->
       (match v0 with
        | VInt v ->
          if (||) ((||) (f64_nonzero v) (has flags proto_wantzero))
               (f64_signbit v)
          then lift3 (proto_encodeLE64 b v)
          else ret Z0 None b
        | _ -> ret Z0 None b)
     | None -> ret Z0 None b)
  | CString ->
    (match ov with
     | Some v ->
       (match v with
        | VStr s ->
          if (||) (negb (Z.eqb (len s) Z0)) (has flags proto_wantzero)
          then encode_varlen_bytes b s
          else ret Z0 None b
        | _ -> ret Z0 None b)
     | None -> ret Z0 None b)
  | CBytes ->
    (match ov with
     | Some v ->
       (match v with
        | VBytes (nn, s) ->
          if (||) nn (has flags proto_wantzero)
          then encode_varlen_bytes b s
          else ret Z0 None b
        | _ -> ret Z0 None b)
     | None -> ret Z0 None b)
  | CByteArray _ ->
    (match ov with
     | Some v ->
       (match v with
        | VArr s ->
          if (||) (has flags proto_wantzero) (negb (all_zero s))
          then encode_varlen_bytes b s
          else ret Z0 None b
        | _ -> ret Z0 None b)
     | None -> ret Z0 None b)
  | CPtr (_, c') ->
    (match ov with
     | Some v ->
       (match v with
        | VPtr o ->
          encode c' b o (with_ (without flags proto_inline) proto_wantzero)
        | _ -> ret Z0 None b)
     | None -> ret Z0 None b)
  | CStruct (inl_, fields) ->
    (match ov with
     | Some v ->
       (match v with
        | VStruct vs ->
          let flags0 =
            if inl_
            then without flags proto_toplevel
            else without flags (Z.coq_lor proto_inline proto_toplevel)
          in
          let uniq =
            let rec uniq fs vs0 flags1 offset b0 k =
              match fs with
              | [] -> k flags1 offset b0
              | f :: fr ->
                (match vs0 with
                 | [] -> k flags1 offset b0
                 | v0 :: vr ->
                   if sf_repeated f
                   then uniq fr vr flags1 offset b0 k
                   else let fieldFlags = make_flags f flags1 in
                        let size1 = size_of (sf_codec f) (Some v0) fieldFlags
                        in
                        if Z.gtb size1 Z0
                        then rbind
                               (in_from b0 offset (fun w ->
                                 lift3
                                   (proto_encodeTag w (sf_number f)
                                     (wire (sf_codec f))))) (fun pat ->
                               let (p, b1) = pat in
                               let (n0, err) = p in
                               let offset0 = Z.add offset n0 in
                               (match err with
                                | Some _ -> ret offset0 err b1
                                | None ->
                                  rbind
                                    (if sf_embedded f
                                     then rbind
                                            (in_from b1 offset0 (fun w ->
                                              lift3
                                                (proto_encodeVarint w
                                                  (w64 size1)))) (fun pat0 ->
                                            let (p0, b2) = pat0 in
                                            let (n1, err0) = p0 in
                                            Ok (((Z.add offset0 n1), err0),
                                            b2))
                                     else Ok ((offset0, None), b1))
                                    (fun pat0 ->
                                    let (p0, b2) = pat0 in
                                    let (offset1, err0) = p0 in
                                    (match err0 with
                                     | Some _ -> ret offset1 err0 b2
                                     | None ->
                                       if Z.ltb (Z.sub (len b2) offset1) size1
                                       then ret (len b2) (Some
                                              Proto_ErrShortBuffer) b2
                                       else rbind
                                              (in_window b2 offset1 size1
                                                (fun w ->
                                                encode (sf_codec f) w (Some
                                                  v0) fieldFlags))
                                              (fun pat1 ->
                                              let (p1, b3) = pat1 in
                                              let (n1, err1) = p1 in
                                              let offset2 = Z.add offset1 n1
                                              in
                                              (match err1 with
                                               | Some _ -> ret offset2 err1 b3
                                               | None ->
                                                 uniq fr vr
                                                   (without flags1
                                                     proto_wantzero) offset2
                                                   b3 k))))))
                        else uniq fr vr flags1 offset b0 k)
            in uniq
          in
          let reps =
            let rec reps fs vs0 flags1 offset b0 =
              match fs with
              | [] -> ret offset None b0
              | f :: fr ->
                (match vs0 with
                 | [] -> ret offset None b0
                 | v0 :: vr ->
                   if negb (sf_repeated f)
                   then reps fr vr flags1 offset b0
                   else rbind
                          (in_from b0 offset (fun w ->
                            encode (sf_codec f) w (Some v0)
                              (make_flags f flags1))) (fun pat ->
                          let (p, b1) = pat in
                          let (n0, err) = p in
                          let offset0 = Z.add offset n0 in
                          (match err with
                           | Some _ -> ret offset0 err b1
                           | None ->
                             reps fr vr
                               (if Z.gtb n0 Z0
                                then without flags1 proto_wantzero
                                else flags1) offset0 b1)))
            in reps
          in
          uniq fields vs flags0 Z0 b (fun flags1 offset b0 ->
            reps fields vs flags1 offset b0)
        | _ -> ret Z0 None b)
     | None -> ret Z0 None b)
  | CSlice (number, wt, emb, _, c') ->
    (match ov with
     | Some v ->
       (match v with
        | VSlice es ->
          let tagSize = proto_sizeOfTag number wt in
          let (_, tagData) =
            proto_encodeTag (repeat Z0 (Z.to_nat tagSize)) number wt
          in
          let rec go es0 offset b0 =
            match es0 with
            | [] -> ret offset None b0
            | e :: er ->
              let size1 = size_of c' (Some e) proto_wantzero in
              rbind (copy_at b0 offset tagData) (fun pat ->
                let (n0, b1) = pat in
                let offset0 = Z.add offset n0 in
                if Z.ltb n0 (len tagData)
                then ret offset0 (Some Proto_ErrShortBuffer) b1
                else rbind
                       (if emb
                        then rbind
                               (in_from b1 offset0 (fun w ->
                                 lift3 (proto_encodeVarint w (w64 size1))))
                               (fun pat0 ->
                               let (p, b2) = pat0 in
                               let (n1, err) = p in
                               Ok (((Z.add offset0 n1), err), b2))
                        else Ok ((offset0, None), b1)) (fun pat0 ->
                       let (p, b2) = pat0 in
                       let (offset1, err) = p in
                       (match err with
                        | Some _ -> ret offset1 err b2
                        | None ->
                          if Z.ltb (Z.sub (len b2) offset1) size1
                          then ret (len b2) (Some Proto_ErrShortBuffer) b2
                          else rbind
                                 (in_window b2 offset1 size1 (fun w ->
                                   encode c' w (Some e) proto_wantzero))
                                 (fun pat1 ->
                                 let (p0, b3) = pat1 in
                                 let (n1, err0) = p0 in
                                 let offset2 = Z.add offset1 n1 in
                                 (match err0 with
                                  | Some _ -> ret offset2 err0 b3
                                  | None -> go er offset2 b3)))))
          in go es Z0 b
        | _ -> ret Z0 None b)
     | None -> ret Z0 None b)
  | CMap (number, kf, vf, _, _, kc, vc) ->
    (match ov with
     | Some v ->
       (match v with
        | VMap (_, es) ->
          let (_, keyTag) = proto_encodeTag (Z0 :: []) (Zpos XH) (wire kc) in
          let (_, valTag) =
            proto_encodeTag (Z0 :: []) (Zpos (XO XH)) (wire vc)
          in
          let tagsz = proto_sizeOfTag number proto_varlen in
          let (_, zero) =
            proto_encodeTag
              (repeat Z0 (Z.to_nat (Z.add tagsz proto_zeroSize))) number
              proto_varlen
          in
          let mapTag = slice_to zero (Z.sub (len zero) (Zpos XH)) in
          let part = fun tg embf pc pv psize offset b0 short_ret_n ->
            if Z.gtb psize Z0
            then rbind (copy_at b0 offset tg) (fun pat ->
                   let (n0, b1) = pat in
                   let offset' = Z.add offset n0 in
                   if Z.ltb n0 (len tg)
                   then Ok (((if short_ret_n then n0 else offset'), (Some
                          Proto_ErrShortBuffer)), b1)
                   else rbind
                          (if embf
                           then rbind
                                  (in_from b1 offset' (fun w ->
                                    lift3 (proto_encodeVarint w (w64 psize))))
                                  (fun pat0 ->
                                  let (p, b2) = pat0 in
                                  let (n1, err) = p in
                                  Ok (((Z.add offset' n1), err), b2))
                           else Ok ((offset', None), b1)) (fun pat0 ->
                          let (p, b2) = pat0 in
                          let (offset'0, err) = p in
                          (match err with
                           | Some _ -> Ok ((offset'0, err), b2)
                           | None ->
                             if Z.ltb (Z.sub (len b2) offset'0) psize
                             then Ok (((len b2), (Some
                                    Proto_ErrShortBuffer)), b2)
                             else rbind
                                    (in_window b2 offset'0 psize (fun w ->
                                      encode pc w (Some pv) proto_wantzero))
                                    (fun pat1 ->
                                    let (p0, b3) = pat1 in
                                    let (n1, err0) = p0 in
                                    Ok (((Z.add offset'0 n1), err0), b3)))))
            else Ok ((offset, None), b0)
          in
          let rec go es0 offset b0 =
            match es0 with
            | [] ->
              if Z.eqb offset Z0
              then rbind (copy_at b0 Z0 zero) (fun pat ->
                     let (n0, b1) = pat in
                     if Z.ltb n0 (len zero)
                     then ret n0 (Some Proto_ErrShortBuffer) b1
                     else ret n0 None b1)
              else ret offset None b0
            | p :: er ->
              let (k, v0) = p in
              let keySize = size_of kc (Some k) proto_wantzero in
              let valSize = size_of vc (Some v0) proto_wantzero in
              let elemSize = Z.add keySize valSize in
              let elemSize0 =
                if Z.gtb keySize Z0
                then Z.add (Z.add elemSize (len keyTag))
                       (if negb (Z.eqb (Z.coq_land kf proto_embedded) Z0)
                        then proto_sizeOfVarint keySize
                        else Z0)
                else elemSize
              in
              let elemSize1 =
                if Z.gtb valSize Z0
                then Z.add (Z.add elemSize0 (len valTag))
                       (if negb (Z.eqb (Z.coq_land vf proto_embedded) Z0)
                        then proto_sizeOfVarint valSize
                        else Z0)
                else elemSize0
              in
              rbind (copy_at b0 offset mapTag) (fun pat ->
                let (n0, b1) = pat in
                let offset0 = Z.add offset n0 in
                if Z.ltb n0 (len mapTag)
                then ret offset0 (Some Proto_ErrShortBuffer) b1
                else rbind
                       (in_from b1 offset0 (fun w ->
                         lift3 (proto_encodeVarint w (w64 elemSize1))))
                       (fun pat0 ->
                       let (p0, b2) = pat0 in
                       let (n1, err) = p0 in
                       let offset1 = Z.add offset0 n1 in
                       (match err with
                        | Some _ -> ret offset1 err b2
                        | None ->
                          rbind
                            (part keyTag
                              (negb (Z.eqb (Z.coq_land kf proto_embedded) Z0))
                              kc k keySize offset1 b2 false) (fun pat1 ->
                            let (p1, b3) = pat1 in
                            let (offset2, err0) = p1 in
                            (match err0 with
                             | Some _ -> ret offset2 err0 b3
                             | None ->
                               rbind
                                 (part valTag
                                   (negb
                                     (Z.eqb (Z.coq_land vf proto_embedded) Z0))
                                   vc v0 valSize offset2 b3 true)
                                 (fun pat2 ->
                                 let (p2, b4) = pat2 in
                                 let (offset3, err1) = p2 in
                                 (match err1 with
                                  | Some _ -> ret offset3 err1 b4
                                  | None -> go er offset3 b4)))))))
          in go es Z0 b
        | _ -> ret Z0 None b)
     | None -> ret Z0 None b)
  | CMessage ->
    (match ov with
     | Some v ->
       (match v with
        | VRaw (_, s) ->
          let size1 = len s in
          if has flags proto_toplevel
          then if Z.ltb (len b) size1
               then ret Z0 (Some Proto_ErrShortBuffer) b
               else rbind (copy_at b Z0 s) (fun pat ->
                      let (_, b0) = pat in ret size1 None b0)
          else let vlen = proto_sizeOfVarlen size1 in
               if Z.ltb (len b) vlen
               then ret Z0 (Some Proto_ErrShortBuffer) b
               else let (p, b0) = proto_encodeVarint b (w64 size1) in
                    let (n0, err) = p in
                    (match err with
                     | Some _ -> ret n0 err b0
                     | None ->
                       rbind (copy_at b0 n0 s) (fun pat ->
                         let (_, b1) = pat in ret vlen None b1))
        | _ -> ret Z0 None b)
     | None -> ret Z0 None b)
  | CUnsupported -> ret Z0 None b
  | _ ->
    (match ov with
     | Some v0 ->
       (match v0 with
        | VInt v ->
          if (||) (negb (Z.eqb v Z0)) (has flags proto_wantzero)
          then lift3 (proto_encodeVarint b v)
          else ret Z0 None b
        | _ -> ret Z0 None b)
     | None -> ret Z0 None b)

type dres = ((z * proto_error option) * val0) res

(** val dret : z -> proto_error option -> val0 -> dres **)

let dret n0 e v =
  Ok ((n0, e), v)

(** val err_overflow : proto_error option **)

let err_overflow =
  Some Proto_errVarintOverflow

(** val err_mismatch : proto_error option **)

let err_mismatch =
  Some Proto_ErrWireTypeUnknown

(** val val_eqb : val0 -> val0 -> bool **)

let rec val_eqb a b =
  match a with
  | VBool x -> (match b with
                | VBool y -> eqb x y
                | _ -> false)
  | VInt x -> (match b with
               | VInt y -> Z.eqb x y
               | _ -> false)
  | VStr x -> (match b with
               | VStr y -> bytes_eqb x y
               | _ -> false)
  | VBytes (_, x) ->
    (match b with
     | VBytes (_, y) -> bytes_eqb x y
     | _ -> false)
  | VArr x -> (match b with
               | VArr y -> bytes_eqb x y
               | _ -> false)
  | VPtr o ->
    (match o with
     | Some x ->
       (match b with
        | VPtr o0 -> (match o0 with
                      | Some y -> val_eqb x y
                      | None -> false)
        | _ -> false)
     | None ->
       (match b with
        | VPtr o0 -> (match o0 with
                      | Some _ -> false
                      | None -> true)
        | _ -> false))
  | VStruct xs ->
    (match b with
     | VStruct ys ->
       let rec go xs0 ys0 =
         match xs0 with
         | [] -> (match ys0 with
                  | [] -> true
                  | _ :: _ -> false)
         | x :: xr ->
           (match ys0 with
            | [] -> false
            | y :: yr -> (&&) (val_eqb x y) (go xr yr))
       in go xs ys
     | _ -> false)
  | _ -> false

(** val map_assign :
    (val0 * val0) list -> val0 -> val0 -> (val0 * val0) list **)

let rec map_assign es k v =
  match es with
  | [] -> (k, v) :: []
  | p :: r ->
    let (k', v') = p in
    if val_eqb k' k then (k', v) :: r else (k', v') :: (map_assign r k v)

(** val nth_field : sfield list -> val0 list -> z -> (nat * sfield) option **)

let nth_field fields _ number =
  let rec go fs i acc =
    match fs with
    | [] -> acc
    | f :: r ->
      go r (S i) (if Z.eqb (sf_number f) number then Some (i, f) else acc)
  in go fields O None

(** val max_number : sfield list -> z **)

let max_number fields =
  fold_left (fun m f -> Z.max m (sf_number f)) fields Z0

(** val set_nth : val0 list -> nat -> val0 -> val0 list **)

let rec set_nth vs i v =
  match vs with
  | [] -> []
  | x :: r -> (match i with
               | O -> v :: r
               | S i' -> x :: (set_nth r i' v))

(** val decode : nat -> codec -> bytes -> val0 -> z -> dres **)

let rec decode fuel c b old flags =
  match fuel with
  | O -> OutOfFuel
  | S fuel' ->
    (match c with
     | CBool ->
       let (p, err) = proto_decodeVarint b in
       let (v, n0) = p in dret n0 err (VBool (negb (Z.eqb v Z0)))
     | CInt ->
       let (p, err) = proto_decodeVarint b in
       let (v, n0) = p in dret n0 err (VInt (proto_flags_int64 flags v))
     | CInt32 ->
       let (p, err) = proto_decodeVarint b in
       let (u, n0) = p in
       let v = proto_flags_int64 flags u in
       if (||)
            (Z.ltb v (Zneg (XO (XO (XO (XO (XO (XO (XO (XO (XO (XO (XO (XO
              (XO (XO (XO (XO (XO (XO (XO (XO (XO (XO (XO (XO (XO (XO (XO (XO
              (XO (XO (XO XH)))))))))))))))))))))))))))))))))
            (Z.gtb v (Zpos (XI (XI (XI (XI (XI (XI (XI (XI (XI (XI (XI (XI
              (XI (XI (XI (XI (XI (XI (XI (XI (XI (XI (XI (XI (XI (XI (XI (XI
              (XI (XI XH))))))))))))))))))))))))))))))))
       then dret n0 err_overflow old
       else dret n0 err (VInt v)
     | CInt64 ->
       let (p, err) = proto_decodeVarint b in
       let (v, n0) = p in dret n0 err (VInt (proto_flags_int64 flags v))
     | CUint ->
       let (p, err) = proto_decodeVarint b in
       let (v, n0) = p in dret n0 err (VInt v)
     | CUint32 ->
       let (p, err) = proto_decodeVarint b in
       let (v, n0) = p in
       if Z.gtb v (Zpos (XI (XI (XI (XI (XI (XI (XI (XI (XI (XI (XI (XI (XI
            (XI (XI (XI (XI (XI (XI (XI (XI (XI (XI (XI (XI (XI (XI (XI (XI
            (XI (XI XH))))))))))))))))))))))))))))))))
       then dret n0 err_overflow old
       else dret n0 err (VInt v)
     | CUint64 ->
       let (p, err) = proto_decodeVarint b in
       let (v, n0) = p in dret n0 err (VInt v)
     | CFixed32 ->
       let (p, err) = proto_decodeLE32 b in
       let (v, n0) = p in dret n0 err (VInt v)
     | CFloat32 ->
       let (p, err) = proto_decodeLE32 b in
       let (v, n0) = p in dret n0 err (VInt v)
     | CString ->
       let (p, err) = proto_decodeVarlen b in
       let (v, n0) = p in dret n0 err (VStr v)
     | CBytes ->
       let (p, err) = proto_decodeVarlen b in
       let (v, n0) = p in dret n0 err (VBytes (true, v))
     | CByteArray sz ->
       let (p, err) = proto_decodeVarlen b in
       let (v, r) = p in
       (match err with
        | Some _ -> dret r err old
        | None ->
          let oldb = match old with
                     | VArr s -> s
                     | _ -> repeat Z0 sz in
          let cnt = Z.min (Z.of_nat sz) (len v) in
          let newv = VArr (app (slice_to v cnt) (slice_from oldb cnt)) in
          if negb (Z.eqb cnt (Z.of_nat sz))
          then dret r err_mismatch newv
          else dret r None newv)
     | CPtr (t, c') ->
       let cur =
         match old with
         | VPtr o -> (match o with
                      | Some x -> x
                      | None -> zero_val t)
         | _ -> zero_val t
       in
       rbind (decode fuel' c' b cur flags) (fun pat ->
         let (p, v) = pat in let (n0, err) = p in dret n0 err (VPtr (Some v)))
     | CStruct (_, fields) ->
       let vs =
         match old with
         | VBool _ -> []
         | VInt _ -> []
         | VStr _ -> []
         | VBytes (_, _) -> []
         | VArr _ -> []
         | VPtr _ -> []
         | VStruct vs -> vs
         | _ -> []
       in
       let flags0 = without flags proto_toplevel in
       let maxn = max_number fields in
       let rec loop fuel0 offset vs0 =
         match fuel0 with
         | O -> OutOfFuel
         | S fuel'' ->
           if negb (Z.ltb offset (len b))
           then dret offset None (VStruct vs0)
           else rbind (cfrom b offset) (fun w ->
                  let (p, err) = proto_decodeTag w in
                  let (p0, n0) = p in
                  let (fieldNumber, wireType) = p0 in
                  let offset0 = Z.add offset n0 in
                  (match err with
                   | Some _ -> dret offset0 err (VStruct vs0)
                   | None ->
                     let fo =
                       if (&&)
                            ((&&) (Z.leb Z0 fieldNumber)
                              (Z.ltb fieldNumber (Z.add maxn (Zpos XH))))
                            (Z.ltb fieldNumber
                              (Z.pow (Zpos (XO XH)) (Zpos (XI (XI (XI (XI (XI
                                XH))))))))
                       then nth_field fields vs0 fieldNumber
                       else None
                     in
                     (match fo with
                      | Some p1 ->
                        let (i, f) = p1 in
                        if negb (Z.eqb wireType (wire (sf_codec f)))
                        then dret offset0 err_mismatch (VStruct vs0)
                        else rbind (cfrom b offset0) (fun w0 ->
                               let win =
                                 if Z.eqb wireType proto_varint
                                 then let (p2, e) = proto_decodeVarint w0 in
                                      let (_, n1) = p2 in
                                      (match e with
                                       | Some _ -> Ok ((None, offset0), e)
                                       | None ->
                                         Ok (((Some (offset0,
                                           (Z.add offset0 n1))), offset0),
                                           None))
                                 else if Z.eqb wireType proto_varlen
                                      then let (p2, e) = proto_decodeVarint w0
                                           in
                                           let (l, n1) = p2 in
                                           (match e with
                                            | Some _ ->
                                              Ok ((None, (Z.add offset0 n1)),
                                                e)
                                            | None ->
                                              if Z.gtb l
                                                   (w64
                                                     (Z.sub (len b)
                                                       (Z.add offset0 n1)))
                                              then Ok ((None, (len b)), (Some
                                                     Proto_ErrUnexpectedEOF))
                                              else if sf_embedded f
                                                   then Ok (((Some
                                                          ((Z.add offset0 n1),
                                                          (Z.add
                                                            (Z.add offset0 n1)
                                                            (s64 l)))),
                                                          (Z.add offset0 n1)),
                                                          None)
                                                   else Ok (((Some (offset0,
                                                          (Z.add
                                                            (Z.add offset0 n1)
                                                            (s64 l)))),
                                                          offset0), None))
                                      else if Z.eqb wireType proto_fixed32
                                           then if Z.gtb
                                                     (Z.add offset0 (Zpos (XO
                                                       (XO XH)))) (len b)
                                                then Ok ((None, (len b)),
                                                       (Some
                                                       Proto_ErrUnexpectedEOF))
                                                else Ok (((Some (offset0,
                                                       (Z.add offset0 (Zpos
                                                         (XO (XO XH)))))),
                                                       offset0), None)
                                           else if Z.eqb wireType
                                                     proto_fixed64
                                                then if Z.gtb
                                                          (Z.add offset0
                                                            (Zpos (XO (XO (XO
                                                            XH))))) (len b)
                                                     then Ok ((None,
                                                            (len b)), (Some
                                                            Proto_ErrUnexpectedEOF))
                                                     else Ok (((Some
                                                            (offset0,
                                                            (Z.add offset0
                                                              (Zpos (XO (XO
                                                              (XO XH))))))),
                                                            offset0), None)
                                                else Ok ((None, offset0),
                                                       (Some
                                                       Proto_ErrWireTypeUnknown))
                               in
                               rbind win (fun pat ->
                                 let (p2, err0) = pat in
                                 let (range, offset1) = p2 in
                                 (match range with
                                  | Some p3 ->
                                    let (lo, hi) = p3 in
                                    rbind (cslice b lo hi) (fun data ->
                                      let oldf =
                                        nth i vs0 (zero_val (sf_ty f))
                                      in
                                      rbind
                                        (decode fuel' (sf_codec f) data oldf
                                          (make_flags f flags0)) (fun pat0 ->
                                        let (p4, newf) = pat0 in
                                        let (n1, err1) = p4 in
                                        let offset2 = Z.add offset1 n1 in
                                        let vs1 = set_nth vs0 i newf in
                                        (match err1 with
                                         | Some _ ->
                                           dret offset2 err1 (VStruct vs1)
                                         | None -> loop fuel'' offset2 vs1)))
                                  | None -> dret offset1 err0 (VStruct vs0))))
                      | None ->
                        rbind (cfrom b offset0) (fun w0 ->
                          if Z.eqb wireType proto_varint
                          then let (p1, e) = proto_decodeVarint w0 in
                               let (_, s) = p1 in
                               if Z.leb (s64 (Z.add offset0 s)) (len b)
                               then let offset1 = s64 (Z.add offset0 s) in
                                    (match e with
                                     | Some _ -> dret offset1 e (VStruct vs0)
                                     | None -> loop fuel'' offset1 vs0)
                               else let offset1 = len b in
                                    let err0 = Some Proto_ErrUnexpectedEOF in
                                    (match err0 with
                                     | Some _ ->
                                       dret offset1 err0 (VStruct vs0)
                                     | None -> loop fuel'' offset1 vs0)
                          else if Z.eqb wireType proto_varlen
                               then let (p1, e) = proto_decodeVarint w0 in
                                    let (size1, s) = p1 in
                                    (match e with
                                     | Some _ ->
                                       if Z.leb (s64 (Z.add offset0 s))
                                            (len b)
                                       then let offset1 =
                                              s64 (Z.add offset0 s)
                                            in
                                            (match e with
                                             | Some _ ->
                                               dret offset1 e (VStruct vs0)
                                             | None -> loop fuel'' offset1 vs0)
                                       else let offset1 = len b in
                                            let err0 = Some
                                              Proto_ErrUnexpectedEOF
                                            in
                                            (match err0 with
                                             | Some _ ->
                                               dret offset1 err0 (VStruct vs0)
                                             | None -> loop fuel'' offset1 vs0)
                                     | None ->
                                       if Z.gtb size1 (w64 (Z.sub (len b) s))
                                       then let err0 = Some
                                              Proto_ErrUnexpectedEOF
                                            in
                                            if Z.leb (s64 (Z.add offset0 s))
                                                 (len b)
                                            then let offset1 =
                                                   s64 (Z.add offset0 s)
                                                 in
                                                 (match err0 with
                                                  | Some _ ->
                                                    dret offset1 err0
                                                      (VStruct vs0)
                                                  | None ->
                                                    loop fuel'' offset1 vs0)
                                            else let offset1 = len b in
                                                 let err1 = Some
                                                   Proto_ErrUnexpectedEOF
                                                 in
                                                 (match err1 with
                                                  | Some _ ->
                                                    dret offset1 err1
                                                      (VStruct vs0)
                                                  | None ->
                                                    loop fuel'' offset1 vs0)
                                       else let skip0 = Z.add s (s64 size1) in
                                            let err0 = None in
                                            if Z.leb
                                                 (s64 (Z.add offset0 skip0))
                                                 (len b)
                                            then let offset1 =
                                                   s64 (Z.add offset0 skip0)
                                                 in
                                                 (match err0 with
                                                  | Some _ ->
                                                    dret offset1 err0
                                                      (VStruct vs0)
                                                  | None ->
                                                    loop fuel'' offset1 vs0)
                                            else let offset1 = len b in
                                                 let err1 = Some
                                                   Proto_ErrUnexpectedEOF
                                                 in
                                                 (match err1 with
                                                  | Some _ ->
                                                    dret offset1 err1
                                                      (VStruct vs0)
                                                  | None ->
                                                    loop fuel'' offset1 vs0))
                               else if Z.eqb wireType proto_fixed32
                                    then let (p1, e) = proto_decodeLE32 w0 in
                                         let (_, s) = p1 in
                                         if Z.leb (s64 (Z.add offset0 s))
                                              (len b)
                                         then let offset1 =
                                                s64 (Z.add offset0 s)
                                              in
                                              (match e with
                                               | Some _ ->
                                                 dret offset1 e (VStruct vs0)
                                               | None ->
                                                 loop fuel'' offset1 vs0)
                                         else let offset1 = len b in
                                              let err0 = Some
                                                Proto_ErrUnexpectedEOF
                                              in
                                              (match err0 with
                                               | Some _ ->
                                                 dret offset1 err0 (VStruct
                                                   vs0)
                                               | None ->
                                                 loop fuel'' offset1 vs0)
                                    else if Z.eqb wireType proto_fixed64
                                         then let (p1, e) =
                                                proto_decodeLE64 w0
                                              in
                                              let (_, s) = p1 in
                                              if Z.leb
                                                   (s64 (Z.add offset0 s))
                                                   (len b)
                                              then let offset1 =
                                                     s64 (Z.add offset0 s)
                                                   in
                                                   (match e with
                                                    | Some _ ->
                                                      dret offset1 e (VStruct
                                                        vs0)
                                                    | None ->
                                                      loop fuel'' offset1 vs0)
                                              else let offset1 = len b in
                                                   let err0 = Some
                                                     Proto_ErrUnexpectedEOF
                                                   in
                                                   (match err0 with
                                                    | Some _ ->
                                                      dret offset1 err0
                                                        (VStruct vs0)
                                                    | None ->
                                                      loop fuel'' offset1 vs0)
                                         else let skip0 = Z0 in
                                              let err0 = Some
                                                Proto_ErrWireTypeUnknown
                                              in
                                              if Z.leb
                                                   (s64 (Z.add offset0 skip0))
                                                   (len b)
                                              then let offset1 =
                                                     s64 (Z.add offset0 skip0)
                                                   in
                                                   (match err0 with
                                                    | Some _ ->
                                                      dret offset1 err0
                                                        (VStruct vs0)
                                                    | None ->
                                                      loop fuel'' offset1 vs0)
                                              else let offset1 = len b in
                                                   let err1 = Some
                                                     Proto_ErrUnexpectedEOF
                                                   in
                                                   (match err1 with
                                                    | Some _ ->
                                                      dret offset1 err1
                                                        (VStruct vs0)
                                                    | None ->
                                                      loop fuel'' offset1 vs0)))))
       in loop fuel' Z0 vs
     | CSlice (_, _, _, et, c') ->
       let es =
         match old with
         | VBool _ -> []
         | VInt _ -> []
         | VStr _ -> []
         | VBytes (_, _) -> []
         | VArr _ -> []
         | VPtr _ -> []
         | VStruct _ -> []
         | VSlice es -> es
         | _ -> []
       in
       rbind (decode fuel' c' b (zero_val et) proto_noflags) (fun pat ->
         let (p, v) = pat in
         let (n0, err) = p in
         (match err with
          | Some _ -> dret n0 err old
          | None -> dret n0 None (VSlice (app es (v :: [])))))
     | CMap (_, _, _, kt, vt, _, _) ->
       let es =
         match old with
         | VBool _ -> []
         | VInt _ -> []
         | VStr _ -> []
         | VBytes (_, _) -> []
         | VArr _ -> []
         | VPtr _ -> []
         | VStruct _ -> []
         | VSlice _ -> []
         | VMap (_, es) -> es
         | VRaw (_, _) -> []
       in
       if Z.eqb (len b) Z0
       then dret Z0 None (VMap (true, es))
       else let st = TStruct ((GField (true, None, kt)) :: ((GField (true,
              None, vt)) :: []))
            in
            rbind (decode fuel' (codec_of st) b (zero_val st) proto_noflags)
              (fun pat ->
              let (p, kv) = pat in
              let (n0, err) = p in
              (match err with
               | Some _ -> dret n0 err (VMap (true, es))
               | None ->
                 (match kv with
                  | VStruct fs ->
                    (match fs with
                     | [] -> dret n0 err (VMap (true, es))
                     | k :: l ->
                       (match l with
                        | [] -> dret n0 err (VMap (true, es))
                        | v :: l0 ->
                          (match l0 with
                           | [] ->
                             dret n0 None (VMap (true, (map_assign es k v)))
                           | _ :: _ -> dret n0 err (VMap (true, es)))))
                  | _ -> dret n0 err (VMap (true, es)))))
     | CMessage ->
       if has flags proto_toplevel
       then dret (len b) None (VRaw (true, b))
       else let (p, err) = proto_decodeVarlen b in
            let (v, n0) = p in
            (match err with
             | Some _ -> dret n0 err old
             | None -> dret n0 None (VRaw (true, v)))
     | CUnsupported -> Panic
     | _ ->
       let (p, err) = proto_decodeLE64 b in
       let (v, n0) = p in dret n0 err (VInt v))

(** val top_flags : z **)

let top_flags =
  Z.coq_lor proto_inline proto_toplevel

(** val size0 : gty -> val0 -> z **)

let size0 t v =
  size_of (codec_of t) (Some v) top_flags

(** val marshal : gty -> val0 -> bytes option res **)

let marshal t v =
  let c = codec_of t in
  let n0 = size_of c (Some v) top_flags in
  if Z.ltb n0 Z0
  then Panic
  else rbind (encode c (repeat Z0 (Z.to_nat n0)) (Some v) top_flags)
         (fun pat ->
         let (p, b) = pat in
         let (_, err) = p in
         (match err with
          | Some _ -> Ok None
          | None -> Ok (Some b)))

(** val marshalTo : gty -> bytes -> val0 -> eres **)

let marshalTo t b v =
  encode (codec_of t) b (Some v) top_flags

(** val unmarshal : nat -> gty -> bytes -> val0 -> val0 option res **)

let unmarshal fuel t b old =
  if Z.eqb (len b) Z0
  then Ok (Some (zero_val t))
  else rbind (decode fuel (codec_of t) b old proto_toplevel) (fun pat ->
         let (p, v) = pat in
         let (n0, err) = p in
         (match err with
          | Some _ -> Ok None
          | None -> if Z.ltb n0 (len b) then Ok None else Ok (Some v)))

(** val elem_ok : gty -> bool **)

let rec elem_ok = function
| TPtr t' -> elem_ok t'
| TStruct fs ->
  let rec go = function
  | [] -> true
  | g :: r ->
    let GField (e, _, ft) = g in
    (&&)
      ((&&) e
        (match ft with
         | TSlice et -> elem_ok et
         | TMap (kt, vt) ->
           (&&)
             (match kt with
              | TBool -> true
              | TInt -> true
              | TInt32 -> true
              | TInt64 -> true
              | TUint -> true
              | TUint32 -> true
              | TUint64 -> true
              | TString -> true
              | _ -> false) (elem_ok vt)
         | _ -> elem_ok ft)) (go r)
  in go fs
| TSlice _ -> false
| TMap (_, _) -> false
| _ -> true

(** val type_ok : gty -> bool **)

let type_ok =
  elem_ok

(** val distinct : z list -> bool **)

let rec distinct = function
| [] -> true
| x :: r -> (&&) (negb (existsb (Z.eqb x) r)) (distinct r)

(** val numbers_ok : codec -> bool **)

let rec numbers_ok = function
| CPtr (_, c') -> numbers_ok c'
| CStruct (_, fs) ->
  (&&) (distinct (map sf_number fs))
    (let rec go = function
     | [] -> true
     | s :: r ->
       let SField (n0, _, _, _, c') = s in
       (&&)
         ((&&)
           ((&&) (Z.leb (Zpos XH) n0)
             (Z.ltb n0 (Z.pow (Zpos (XO XH)) (Zpos (XO (XO (XO (XO XH))))))))
           (numbers_ok c')) (go r)
     in go fs)
| CSlice (n0, _, _, _, c') ->
  (&&)
    ((&&) (Z.leb (Zpos XH) n0)
      (Z.ltb n0 (Z.pow (Zpos (XO XH)) (Zpos (XO (XO (XO (XO XH))))))))
    (numbers_ok c')
| CMap (n0, _, _, _, _, k, v) ->
  (&&)
    ((&&)
      ((&&) (Z.leb (Zpos XH) n0)
        (Z.ltb n0 (Z.pow (Zpos (XO XH)) (Zpos (XO (XO (XO (XO XH))))))))
      (numbers_ok k)) (numbers_ok v)
| CUnsupported -> false
| _ -> true

(** val lim : z **)

let lim =
  Z.pow (Zpos (XO XH)) (Zpos (XI (XI (XI (XI XH)))))

(** val wf_val : gty -> val0 -> bool **)

let rec wf_val t v =
  match t with
  | TBool -> (match v with
              | VBool _ -> true
              | _ -> false)
  | TInt ->
    (match v with
     | VInt z0 ->
       (&&)
         (Z.leb
           (Z.opp (Z.pow (Zpos (XO XH)) (Zpos (XI (XI (XI (XI (XI XH))))))))
           z0)
         (Z.ltb z0 (Z.pow (Zpos (XO XH)) (Zpos (XI (XI (XI (XI (XI XH))))))))
     | _ -> false)
  | TInt32 ->
    (match v with
     | VInt z0 ->
       (&&)
         (Z.leb (Z.opp (Z.pow (Zpos (XO XH)) (Zpos (XI (XI (XI (XI XH)))))))
           z0) (Z.ltb z0 (Z.pow (Zpos (XO XH)) (Zpos (XI (XI (XI (XI XH)))))))
     | _ -> false)
  | TInt64 ->
    (match v with
     | VInt z0 ->
       (&&)
         (Z.leb
           (Z.opp (Z.pow (Zpos (XO XH)) (Zpos (XI (XI (XI (XI (XI XH))))))))
           z0)
         (Z.ltb z0 (Z.pow (Zpos (XO XH)) (Zpos (XI (XI (XI (XI (XI XH))))))))
     | _ -> false)
  | TUint32 ->
    (match v with
     | VInt z0 ->
       (&&) (Z.leb Z0 z0)
         (Z.ltb z0 (Z.pow (Zpos (XO XH)) (Zpos (XO (XO (XO (XO (XO XH))))))))
     | _ -> false)
  | TFloat32 ->
    (match v with
     | VInt z0 ->
       (&&) (Z.leb Z0 z0)
         (Z.ltb z0 (Z.pow (Zpos (XO XH)) (Zpos (XO (XO (XO (XO (XO XH))))))))
     | _ -> false)
  | TString ->
    (match v with
     | VStr s -> (&&) (wfb s) (Z.ltb (len s) lim)
     | _ -> false)
  | TBytes ->
    (match v with
     | VBytes (nn, s) ->
       (&&) ((&&) (wfb s) (Z.ltb (len s) lim)) ((||) nn (Z.eqb (len s) Z0))
     | _ -> false)
  | TByteArray n0 ->
    (match v with
     | VArr s ->
       (&&) ((&&) (wfb s) (Z.eqb (len s) (Z.of_nat n0))) (Z.ltb (len s) lim)
     | _ -> false)
  | TPtr t' ->
    (match v with
     | VPtr o -> (match o with
                  | Some x -> wf_val t' x
                  | None -> true)
     | _ -> false)
  | TStruct fs ->
    (match v with
     | VStruct vs ->
       let rec go fs0 vs0 =
         match fs0 with
         | [] -> (match vs0 with
                  | [] -> true
                  | _ :: _ -> false)
         | g :: fr ->
           let GField (_, _, ft) = g in
           (match vs0 with
            | [] -> false
            | x :: vr -> (&&) (wf_val ft x) (go fr vr))
       in go fs vs
     | _ -> false)
  | TSlice et ->
    (match v with
     | VSlice es ->
       (&&) (Z.ltb (len es) lim)
         (let rec go = function
          | [] -> true
          | x :: r -> (&&) (wf_val et x) (go r)
          in go es)
     | _ -> false)
  | TMap (kt, vt) ->
    (match v with
     | VMap (nn, es) ->
       (&&) ((&&) (Z.ltb (len es) lim) ((||) nn (Z.eqb (len es) Z0)))
         (let rec go = function
          | [] -> true
          | p :: r ->
            let (k, x) = p in (&&) ((&&) (wf_val kt k) (wf_val vt x)) (go r)
          in go es)
     | _ -> false)
  | TRawMessage ->
    (match v with
     | VRaw (nn, s) ->
       (&&) ((&&) (wfb s) (Z.ltb (len s) lim)) ((||) nn (Z.eqb (len s) Z0))
     | _ -> false)
  | _ ->
    (match v with
     | VInt z0 ->
       (&&) (Z.leb Z0 z0)
         (Z.ltb z0
           (Z.pow (Zpos (XO XH)) (Zpos (XO (XO (XO (XO (XO (XO XH)))))))))
     | _ -> false)

(** val norm : val0 -> val0 **)

let rec norm v = match v with
| VBytes (_, s) -> VBytes (true, s)
| VPtr o -> (match o with
             | Some x -> VPtr (Some (norm x))
             | None -> v)
| VStruct vs -> VStruct (map norm vs)
| VSlice es -> VSlice (map norm es)
| VMap (_, es) ->
  VMap (true, (map (fun kv -> ((norm (fst kv)), (norm (snd kv)))) es))
| VRaw (_, s) -> VRaw (true, s)
| _ -> v

(** val empty_enc : val0 -> bool **)

let rec empty_enc = function
| VPtr o ->
  (match o with
   | Some x ->
     (match x with
      | VPtr _ -> empty_enc x
      | VStruct _ -> empty_enc x
      | _ -> false)
   | None -> true)
| VStruct vs -> forallb empty_enc vs
| VSlice es -> (match es with
                | [] -> true
                | _ :: _ -> false)
| _ -> false

(** val representable : val0 -> bool **)

let rec representable = function
| VPtr o ->
  (match o with
   | Some x -> (&&) (negb (empty_enc x)) (representable x)
   | None -> true)
| VStruct vs -> forallb representable vs
| VSlice es ->
  forallb (fun e ->
    (&&) (representable e)
      (negb (match e with
             | VPtr _ -> empty_enc e
             | _ -> false))) es
| VMap (_, es) ->
  forallb (fun kv ->
    (&&) ((&&) (representable (fst kv)) (representable (snd kv)))
      (negb (match snd kv with
             | VPtr _ -> empty_enc (snd kv)
             | _ -> false))) es
| _ -> true

(** val keys_distinct : val0 -> bool **)

let rec keys_distinct = function
| VPtr o -> (match o with
             | Some x -> keys_distinct x
             | None -> true)
| VStruct vs -> forallb keys_distinct vs
| VSlice es -> forallb keys_distinct es
| VMap (_, es) ->
  let rec go = function
  | [] -> true
  | p :: r ->
    let (k, x) = p in
    (&&)
      ((&&) (negb (existsb (fun kv -> val_eqb (fst kv) k) r))
        (keys_distinct x)) (go r)
  in go es
| _ -> true

(** val ctz_pos : positive -> z **)

let rec ctz_pos = function
| XO p' -> Z.add (Zpos XH) (ctz_pos p')
| _ -> Z0

(** val ctz : z -> z -> z **)

let ctz dflt = function
| Z0 -> dflt
| Zpos p -> ctz_pos p
| Zneg _ -> Z0

type json_err =
| JErrSyntax
| JErrUnexpectedEOF
| JErrType
| JErrOverflow
| JErrOther

(** val index_byte_from : z -> bytes -> z -> z **)

let rec index_byte_from i b c =
  match b with
  | [] -> Zneg XH
  | x :: r -> if Z.eqb x c then i else index_byte_from (Z.add i (Zpos XH)) r c

(** val index_byte : bytes -> z -> z **)

let index_byte b c =
  index_byte_from Z0 b c

(** val ctz64 : z -> z **)

let ctz64 x =
  ctz (Zpos (XO (XO (XO (XO (XO (XO XH))))))) x

(** val chunks64_fuel : nat -> bytes -> z list **)

let rec chunks64_fuel fuel s =
  match fuel with
  | O -> []
  | S f ->
    if Z.leb (Zpos (XO (XO (XO XH)))) (len s)
    then (le64 s) :: (chunks64_fuel f
                       (skipn (S (S (S (S (S (S (S (S O)))))))) s))
    else []

(** val chunks64 : bytes -> z list **)

let chunks64 s =
  chunks64_fuel (length s) s

(** val json_validAsciiPrint : z **)

let json_validAsciiPrint =
  Zpos (XO (XO (XO (XO (XO (XO (XO (XO (XO (XO (XO (XO (XO (XO (XO (XO (XO
    (XO (XO (XO (XO (XO (XO (XO (XO (XO (XO (XO XH))))))))))))))))))))))))))))

(** val json_noBackslash : z **)

let json_noBackslash =
  Zpos (XO (XO (XO (XO (XO (XO (XO (XO (XO (XO (XO (XO (XO (XO (XO (XO (XO
    (XO (XO (XO (XO (XO (XO (XO (XO (XO (XO (XO (XO
    XH)))))))))))))))))))))))))))))

(** val json_Undefined : z **)

let json_Undefined =
  Z0

(** val json_Null : z **)

let json_Null =
  Zpos XH

(** val json_False : z **)

let json_False =
  Zpos (XO XH)

(** val json_True : z **)

let json_True =
  Zpos (XI XH)

(** val json_Uint : z **)

let json_Uint =
  Zpos (XI (XO XH))

(** val json_Int : z **)

let json_Int =
  Zpos (XO (XI XH))

(** val json_Float : z **)

let json_Float =
  Zpos (XI (XI XH))

(** val json_String : z **)

let json_String =
  Zpos (XO (XO (XO XH)))

(** val json_Unescaped : z **)

let json_Unescaped =
  Zpos (XI (XO (XO XH)))

(** val json_Array : z **)

let json_Array =
  Zpos (XO (XO (XO (XO XH))))

(** val json_Object : z **)

let json_Object =
  Zpos (XO (XO (XO (XO (XO XH)))))

(** val json_minBufferSize : z **)

let json_minBufferSize =
  Zpos (XO (XO (XO (XO (XO (XO (XO (XO (XO (XO (XO (XO (XO (XO (XO
    XH)))))))))))))))

(** val json_minReadSize : z **)

let json_minReadSize =
  Zpos (XO (XO (XO (XO (XO (XO (XO (XO (XO (XO (XO (XO XH))))))))))))

(** val json_sp : z **)

let json_sp =
  Zpos (XO (XO (XO (XO (XO XH)))))

(** val json_ht : z **)

let json_ht =
  Zpos (XI (XO (XO XH)))

(** val json_nl : z **)

let json_nl =
  Zpos (XO (XI (XO XH)))

(** val json_cr : z **)

let json_cr =
  Zpos (XI (XO (XI XH)))

(** val json_lsb : z **)

let json_lsb =
  Zpos (XI (XO (XO (XO (XO (XO (XO (XO (XI (XO (XO (XO (XO (XO (XO (XO (XI
    (XO (XO (XO (XO (XO (XO (XO (XI (XO (XO (XO (XO (XO (XO (XO (XI (XO (XO
    (XO (XO (XO (XO (XO (XI (XO (XO (XO (XO (XO (XO (XO (XI (XO (XO (XO (XO
    (XO (XO (XO XH))))))))))))))))))))))))))))))))))))))))))))))))))))))))

(** val json_msb : z **)

let json_msb =
  Zpos (XO (XO (XO (XO (XO (XO (XO (XI (XO (XO (XO (XO (XO (XO (XO (XI (XO
    (XO (XO (XO (XO (XO (XO (XI (XO (XO (XO (XO (XO (XO (XO (XI (XO (XO (XO
    (XO (XO (XO (XO (XI (XO (XO (XO (XO (XO (XO (XO (XI (XO (XO (XO (XO (XO
    (XO (XO (XI (XO (XO (XO (XO (XO (XO (XO
    XH)))))))))))))))))))))))))))))))))))))))))))))))))))))))))))))))

(** val json_ParseFlags_has : z -> z -> bool **)

let json_ParseFlags_has flags f =
  negb (Z.eqb (and32 flags f) Z0)

(** val json_skipSpacesN : bytes -> bytes * z **)

let json_skipSpacesN b =
  let k1_ = fun _ -> ((slice_from b (len b)), (len b)) in
  let rec loop2_ l3_ i4_ =
    match l3_ with
    | [] -> k1_ ()
    | _ :: t6_ ->
      let tag7_ = at_ b i4_ in
      if (||)
           ((||) ((||) (Z.eqb tag7_ json_sp) (Z.eqb tag7_ json_ht))
             (Z.eqb tag7_ json_nl)) (Z.eqb tag7_ json_cr)
      then loop2_ t6_ (Z.add i4_ (Zpos XH))
      else ((slice_from b i4_), i4_)
  in loop2_ b Z0

(** val json_skipSpaces : bytes -> bytes **)

let json_skipSpaces b =
  let k1_ = fun b0 -> b0 in
  if (&&) (Z.gtb (len b) Z0)
       (Z.leb (at_ b Z0) (Zpos (XO (XO (XO (XO (XO XH)))))))
  then let (b0, _) = json_skipSpacesN b in k1_ b0
  else k1_ b

(** val json_trimTrailingSpacesN : nat -> bytes -> bytes option **)

let json_trimTrailingSpacesN fuel b =
  let i = subi64 (len b) (Zpos XH) in
  let k1_ = fun i0 -> Some (slice_to b (addi64 i0 (Zpos XH))) in
  let rec loop2_ f3_ i0 =
    match f3_ with
    | O -> None
    | S f4_ ->
      if Z.geb i0 Z0
      then let k5_ = fun _ -> let i1 = subi64 i0 (Zpos XH) in loop2_ f4_ i1 in
           let tag6_ = at_ b i0 in
           if (||)
                ((||) ((||) (Z.eqb tag6_ json_sp) (Z.eqb tag6_ json_ht))
                  (Z.eqb tag6_ json_nl)) (Z.eqb tag6_ json_cr)
           then k5_ ()
           else k1_ i0
      else k1_ i0
  in loop2_ fuel i

(** val json_trimTrailingSpaces : nat -> bytes -> bytes option **)

let json_trimTrailingSpaces fuel b =
  let k1_ = fun b0 -> Some b0 in
  if (&&) (Z.gtb (len b) Z0)
       (Z.leb (at_ b (subi64 (len b) (Zpos XH))) (Zpos (XO (XO (XO (XO (XO
         XH)))))))
  then obind (json_trimTrailingSpacesN fuel b) k1_
  else k1_ b

(** val json_internalParseFlags : nat -> bytes -> z option **)

let json_internalParseFlags fuel b =
  let flags = Z0 in
  let b0 = json_skipSpaces b in
  obind (json_trimTrailingSpaces fuel b0) (fun b1 ->
    let k2_ = fun flags0 ->
      let k1_ = fun flags1 -> Some flags1 in
      if Z.eqb (index_byte b1 (Zpos (XO (XO (XI (XI (XI (XO XH)))))))) (Zneg
           XH)
      then let flags1 = or32 flags0 json_noBackslash in k1_ flags1
      else k1_ flags0
    in
    if ascii_ValidPrint b1
    then let flags0 = or32 flags json_validAsciiPrint in k2_ flags0
    else k2_ flags)

(** val json_hasNullPrefix : bytes -> bool **)

let json_hasNullPrefix b =
  (&&) (Z.geb (len b) (Zpos (XO (XO XH))))
    (bytes_eqb (slice_to b (Zpos (XO (XO XH)))) ((Zpos (XO (XI (XI (XI (XO
      (XI XH))))))) :: ((Zpos (XI (XO (XI (XO (XI (XI XH))))))) :: ((Zpos (XO
      (XO (XI (XI (XO (XI XH))))))) :: ((Zpos (XO (XO (XI (XI (XO (XI
      XH))))))) :: [])))))

(** val json_hasTruePrefix : bytes -> bool **)

let json_hasTruePrefix b =
  (&&) (Z.geb (len b) (Zpos (XO (XO XH))))
    (bytes_eqb (slice_to b (Zpos (XO (XO XH)))) ((Zpos (XO (XO (XI (XO (XI
      (XI XH))))))) :: ((Zpos (XO (XI (XO (XO (XI (XI XH))))))) :: ((Zpos (XI
      (XO (XI (XO (XI (XI XH))))))) :: ((Zpos (XI (XO (XI (XO (XO (XI
      XH))))))) :: [])))))

(** val json_hasFalsePrefix : bytes -> bool **)

let json_hasFalsePrefix b =
  (&&) (Z.geb (len b) (Zpos (XI (XO XH))))
    (bytes_eqb (slice_to b (Zpos (XI (XO XH)))) ((Zpos (XO (XI (XI (XO (XO
      (XI XH))))))) :: ((Zpos (XI (XO (XO (XO (XO (XI XH))))))) :: ((Zpos (XO
      (XO (XI (XI (XO (XI XH))))))) :: ((Zpos (XI (XI (XO (XO (XI (XI
      XH))))))) :: ((Zpos (XI (XO (XI (XO (XO (XI XH))))))) :: []))))))

(** val json_decoder_parseFalse :
    z -> bytes -> ((bytes * bytes) * z) * json_err option **)

let json_decoder_parseFalse _ b =
  if json_hasFalsePrefix b
  then ((((slice_to b (Zpos (XI (XO XH)))),
         (slice_from b (Zpos (XI (XO XH))))), json_False), None)
  else if Z.ltb (len b) (Zpos (XI (XO XH)))
       then ((([], (slice_from b (len b))), json_Undefined), (Some
              JErrUnexpectedEOF))
       else ((([], b), json_Undefined), (Some JErrSyntax))

(** val json_decoder_parseNull :
    z -> bytes -> ((bytes * bytes) * z) * json_err option **)

let json_decoder_parseNull _ b =
  if json_hasNullPrefix b
  then ((((slice_to b (Zpos (XO (XO XH)))),
         (slice_from b (Zpos (XO (XO XH))))), json_Null), None)
  else if Z.ltb (len b) (Zpos (XO (XO XH)))
       then ((([], (slice_from b (len b))), json_Undefined), (Some
              JErrUnexpectedEOF))
       else ((([], b), json_Undefined), (Some JErrSyntax))

(** val json_decoder_parseNumber :
    nat -> z -> bytes -> (((bytes * bytes) * z) * json_err option) option **)

let json_decoder_parseNumber fuel _ b =
  let v = [] in
  let r = [] in
  let kind = Z0 in
  let err = None in
  if Z.eqb (len b) Z0
  then let err0 = Some JErrUnexpectedEOF in Some (((v, b), kind), err0)
  else let i = Z0 in
       let k17_ = fun kind0 i0 ->
         if Z.eqb i0 (len b)
         then let r0 = slice_from b i0 in
              let err0 = Some JErrSyntax in Some (((v, r0), kind0), err0)
         else if (||) (Z.ltb (at_ b i0) (Zpos (XO (XO (XO (XO (XI XH)))))))
                   (Z.gtb (at_ b i0) (Zpos (XI (XO (XO (XI (XI XH)))))))
              then let r0 = slice_from b i0 in
                   let err0 = Some JErrSyntax in Some (((v, r0), kind0), err0)
              else let k16_ = fun v0 r0 err0 i1 ->
                     let k12_ = fun i2 ->
                       let k7_ = fun r1 kind1 err1 i3 ->
                         let k1_ = fun _ kind2 err2 i4 ->
                           let v1 = slice_to b i4 in
                           let r2 = slice_from b i4 in
                           Some (((v1, r2), kind2), err2)
                         in
                         if (&&) (Z.ltb i3 (len b))
                              ((||)
                                (Z.eqb (at_ b i3) (Zpos (XI (XO (XI (XO (XO
                                  (XI XH))))))))
                                (Z.eqb (at_ b i3) (Zpos (XI (XO (XI (XO (XO
                                  (XO XH)))))))))
                         then let i4 = addi64 i3 (Zpos XH) in
                              let k6_ = fun i5 ->
                                if Z.eqb i5 (len b)
                                then let r2 = slice_from b i5 in
                                     let err2 = Some JErrSyntax in
                                     Some (((v0, r2), json_Float), err2)
                                else let k2_ = fun err2 i6 ->
                                       k1_ r1 json_Float err2 i6
                                     in
                                     let rec loop3_ f4_ err2 i6 =
                                       match f4_ with
                                       | O -> None
                                       | S f5_ ->
                                         if Z.ltb i6 (len b)
                                         then let c = at_ b i6 in
                                              if (||)
                                                   (Z.gtb (Zpos (XO (XO (XO
                                                     (XO (XI XH)))))) c)
                                                   (Z.gtb c (Zpos (XI (XO (XO
                                                     (XI (XI XH)))))))
                                              then if Z.eqb i6 i5
                                                   then let err3 = Some
                                                          JErrSyntax
                                                        in
                                                        Some (((v0, r1),
                                                        json_Float), err3)
                                                   else k2_ err2 i6
                                              else let i7 =
                                                     addi64 i6 (Zpos XH)
                                                   in
                                                   loop3_ f5_ err2 i7
                                         else k2_ err2 i6
                                     in loop3_ fuel err1 i5
                              in
                              if Z.ltb i4 (len b)
                              then let c_1 = at_ b i4 in
                                   if (||)
                                        (Z.eqb c_1 (Zpos (XI (XI (XO (XI (XO
                                          XH)))))))
                                        (Z.eqb c_1 (Zpos (XI (XO (XI (XI (XO
                                          XH)))))))
                                   then let i5 = addi64 i4 (Zpos XH) in k6_ i5
                                   else k6_ i4
                              else k6_ i4
                         else k1_ r1 kind1 err1 i3
                       in
                       if (&&) (Z.ltb i2 (len b))
                            (Z.eqb (at_ b i2) (Zpos (XO (XI (XI (XI (XO
                              XH)))))))
                       then let i3 = addi64 i2 (Zpos XH) in
                            let k8_ = fun r1 err1 i4 ->
                              if Z.eqb i4 i3
                              then let r2 = slice_from b i4 in
                                   let err2 = Some JErrSyntax in
                                   Some (((v0, r2), json_Float), err2)
                              else k7_ r1 json_Float err1 i4
                            in
                            let rec loop9_ f10_ r1 err1 i4 =
                              match f10_ with
                              | O -> None
                              | S f11_ ->
                                if Z.ltb i4 (len b)
                                then let c_2 = at_ b i4 in
                                     if (||)
                                          (Z.gtb (Zpos (XO (XO (XO (XO (XI
                                            XH)))))) c_2)
                                          (Z.gtb c_2 (Zpos (XI (XO (XO (XI
                                            (XI XH)))))))
                                     then if Z.eqb i4 i3
                                          then let r2 = slice_from b i4 in
                                               let err2 = Some JErrSyntax in
                                               Some (((v0, r2), json_Float),
                                               err2)
                                          else k8_ r1 err1 i4
                                     else let i5 = addi64 i4 (Zpos XH) in
                                          loop9_ f11_ r1 err1 i5
                                else k8_ r1 err1 i4
                            in loop9_ fuel r0 err0 i3
                       else k7_ r0 kind0 err0 i2
                     in
                     let rec loop13_ f14_ i2 =
                       match f14_ with
                       | O -> None
                       | S f15_ ->
                         if (&&)
                              ((&&) (Z.ltb i2 (len b))
                                (Z.leb (Zpos (XO (XO (XO (XO (XI XH))))))
                                  (at_ b i2)))
                              (Z.leb (at_ b i2) (Zpos (XI (XO (XO (XI (XI
                                XH)))))))
                         then let i3 = addi64 i2 (Zpos XH) in loop13_ f15_ i3
                         else k12_ i2
                     in loop13_ fuel i1
                   in
                   if Z.eqb (at_ b i0) (Zpos (XO (XO (XO (XO (XI XH))))))
                   then let i1 = addi64 i0 (Zpos XH) in
                        if (||) (Z.eqb i1 (len b))
                             ((&&)
                               ((&&)
                                 (negb
                                   (Z.eqb (at_ b i1) (Zpos (XO (XI (XI (XI
                                     (XO XH))))))))
                                 (negb
                                   (Z.eqb (at_ b i1) (Zpos (XI (XO (XI (XO
                                     (XO (XI XH))))))))))
                               (negb
                                 (Z.eqb (at_ b i1) (Zpos (XI (XO (XI (XO (XO
                                   (XO XH))))))))))
                        then let v0 = slice_to b i1 in
                             let r0 = slice_from b i1 in
                             Some (((v0, r0), kind0), err)
                        else if (&&)
                                  (Z.leb (Zpos (XO (XO (XO (XO (XI XH))))))
                                    (at_ b i1))
                                  (Z.leb (at_ b i1) (Zpos (XI (XO (XO (XI (XI
                                    XH)))))))
                             then let r0 = slice_from b i1 in
                                  let err0 = Some JErrSyntax in
                                  Some (((v, r0), kind0), err0)
                             else k16_ v r err i1
                   else k16_ v r err i0
       in
       if Z.eqb (at_ b i) (Zpos (XI (XO (XI (XI (XO XH))))))
       then let i0 = addi64 i (Zpos XH) in k17_ json_Int i0
       else k17_ json_Uint i

(** val json_decoder_parseUintHex :
    z -> bytes -> (z * bytes) * json_err option **)

let json_decoder_parseUintHex _ b =
  let value = Z0 in
  let count = Z0 in
  if Z.eqb (len b) Z0
  then ((Z0, b), (Some JErrSyntax))
  else let k1_ = fun value0 count0 -> ((value0, (slice_from b count0)), None)
       in
       let rec loop2_ l3_ i4_ value0 count0 =
         match l3_ with
         | [] -> k1_ value0 count0
         | h5_ :: t6_ ->
           let k7_ = fun x ->
             if Z.gtb value0 (Zpos (XI (XI (XI (XI (XI (XI (XI (XI (XI (XI
                  (XI (XI (XI (XI (XI (XI (XI (XI (XI (XI (XI (XI (XI (XI (XI
                  (XI (XI (XI (XI (XI (XI (XI (XI (XI (XI (XI (XI (XI (XI (XI
                  (XI (XI (XI (XI (XI (XI (XI (XI (XI (XI (XI (XI (XI (XI (XI
                  (XI (XI (XI (XI
                  XH))))))))))))))))))))))))))))))))))))))))))))))))))))))))))))
             then ((Z0, b), (Some JErrSyntax))
             else let value1 = mul64 value0 (Zpos (XO (XO (XO (XO XH))))) in
                  if Z.gtb value1
                       (sub64 (Zpos (XI (XI (XI (XI (XI (XI (XI (XI (XI (XI
                         (XI (XI (XI (XI (XI (XI (XI (XI (XI (XI (XI (XI (XI
                         (XI (XI (XI (XI (XI (XI (XI (XI (XI (XI (XI (XI (XI
                         (XI (XI (XI (XI (XI (XI (XI (XI (XI (XI (XI (XI (XI
                         (XI (XI (XI (XI (XI (XI (XI (XI (XI (XI (XI (XI (XI
                         (XI
                         XH))))))))))))))))))))))))))))))))))))))))))))))))))))))))))))))))
                         x)
                  then ((Z0, b), (Some JErrSyntax))
                  else let value2 = add64 value1 x in
                       let count1 = addi64 count0 (Zpos XH) in
                       loop2_ t6_ (Z.add i4_ (Zpos XH)) value2 count1
           in
           if (&&) (Z.geb h5_ (Zpos (XO (XO (XO (XO (XI XH)))))))
                (Z.leb h5_ (Zpos (XI (XO (XO (XI (XI XH)))))))
           then let x = sub8 h5_ (Zpos (XO (XO (XO (XO (XI XH)))))) in k7_ x
           else if (&&) (Z.geb h5_ (Zpos (XI (XO (XO (XO (XO (XO XH))))))))
                     (Z.leb h5_ (Zpos (XO (XI (XI (XO (XO (XO XH))))))))
                then let x =
                       add64
                         (sub8 h5_ (Zpos (XI (XO (XO (XO (XO (XO XH))))))))
                         (Zpos (XO (XI (XO XH))))
                     in
                     k7_ x
                else if (&&)
                          (Z.geb h5_ (Zpos (XI (XO (XO (XO (XO (XI XH))))))))
                          (Z.leb h5_ (Zpos (XO (XI (XI (XO (XO (XI XH))))))))
                     then let x =
                            add64
                              (sub8 h5_ (Zpos (XI (XO (XO (XO (XO (XI
                                XH)))))))) (Zpos (XO (XI (XO XH))))
                          in
                          k7_ x
                     else if Z.eqb i4_ Z0
                          then ((Z0, b), (Some JErrSyntax))
                          else k1_ value0 count0
       in loop2_ b Z0 value count

(** val json_decoder_parseUnicode :
    z -> bytes -> (z * z) * json_err option **)

let json_decoder_parseUnicode d b =
  if Z.ltb (len b) (Zpos (XO (XO XH)))
  then ((Z0, (len b)), (Some JErrSyntax))
  else let (p, err) =
         json_decoder_parseUintHex d (slice_to b (Zpos (XO (XO XH))))
       in
       let (u, r) = p in
       if negb (isnil err)
       then ((Z0, (Zpos (XO (XO XH)))), (Some JErrSyntax))
       else if negb (Z.eqb (len r) Z0)
            then ((Z0, (Zpos (XO (XO XH)))), (Some JErrSyntax))
            else (((s32 u), (Zpos (XO (XO XH)))), None)

(** val json_decoder_parseString :
    nat -> z -> bytes -> (((bytes * bytes) * z) * json_err option) option **)

let json_decoder_parseString fuel d b =
  let k8_ = fun n_1 ->
    if (&&)
         ((||) (json_ParseFlags_has (Obj.magic id d) json_noBackslash)
           (Z.ltb
             (index_byte (slice b (Zpos XH) n_1) (Zpos (XO (XO (XI (XI (XI
               (XO XH)))))))) Z0))
         ((||) (json_ParseFlags_has (Obj.magic id d) json_validAsciiPrint)
           (ascii_ValidPrint (slice b (Zpos XH) n_1)))
    then Some ((((slice_to b n_1), (slice_from b n_1)), json_Unescaped), None)
    else let i = Zpos XH in
         let k1_ = fun _ -> Some ((([], (slice_from b (len b))),
           json_Undefined), (Some JErrSyntax))
         in
         let rec loop2_ f3_ i0 =
           match f3_ with
           | O -> None
           | S f4_ ->
             if Z.ltb i0 (len b)
             then let k5_ = fun i1 ->
                    let i2 = addi64 i1 (Zpos XH) in loop2_ f4_ i2
                  in
                  let tag6_ = at_ b i0 in
                  if Z.eqb tag6_ (Zpos (XO (XO (XI (XI (XI (XO XH)))))))
                  then let i1 = addi64 i0 (Zpos XH) in
                       if Z.ltb i1 (len b)
                       then let tag7_ = at_ b i1 in
                            if (||)
                                 ((||)
                                   ((||)
                                     ((||)
                                       ((||)
                                         ((||)
                                           ((||)
                                             (Z.eqb tag7_ (Zpos (XO (XI (XO
                                               (XO (XO XH)))))))
                                             (Z.eqb tag7_ (Zpos (XO (XO (XI
                                               (XI (XI (XO XH)))))))))
                                           (Z.eqb tag7_ (Zpos (XI (XI (XI (XI
                                             (XO XH))))))))
                                         (Z.eqb tag7_ (Zpos (XO (XI (XI (XI
                                           (XO (XI XH)))))))))
                                       (Z.eqb tag7_ (Zpos (XO (XI (XO (XO (XI
                                         (XI XH)))))))))
                                     (Z.eqb tag7_ (Zpos (XO (XO (XI (XO (XI
                                       (XI XH)))))))))
                                   (Z.eqb tag7_ (Zpos (XO (XI (XI (XO (XO (XI
                                     XH)))))))))
                                 (Z.eqb tag7_ (Zpos (XO (XI (XO (XO (XO (XI
                                   XH))))))))
                            then k5_ i1
                            else if Z.eqb tag7_ (Zpos (XI (XO (XI (XO (XI (XI
                                      XH)))))))
                                 then let (p, err) =
                                        json_decoder_parseUnicode d
                                          (slice_from b (addi64 i1 (Zpos XH)))
                                      in
                                      let (_, n0) = p in
                                      if negb (isnil err)
                                      then Some ((([],
                                             (slice_from b
                                               (addi64 (addi64 i1 (Zpos XH))
                                                 n0))), json_Undefined), err)
                                      else let i2 = addi64 i1 n0 in k5_ i2
                                 else Some ((([], b), json_Undefined), (Some
                                        JErrSyntax))
                       else k5_ i1
                  else if Z.eqb tag6_ (Zpos (XO (XI (XO (XO (XO XH))))))
                       then Some ((((slice_to b (addi64 i0 (Zpos XH))),
                              (slice_from b (addi64 i0 (Zpos XH)))),
                              json_String), None)
                       else if Z.ltb (at_ b i0) (Zpos (XO (XO (XO (XO (XO
                                 XH))))))
                            then Some ((([], b), json_Undefined), (Some
                                   JErrSyntax))
                            else k5_ i0
             else k1_ i0
         in loop2_ fuel i
  in
  if Z.ltb (len b) (Zpos (XO XH))
  then Some ((([], (slice_from b (len b))), json_Undefined), (Some
         JErrUnexpectedEOF))
  else if negb (Z.eqb (at_ b Z0) (Zpos (XO (XI (XO (XO (XO XH)))))))
       then Some ((([], b), json_Undefined), (Some JErrSyntax))
       else let n_1 = Z0 in
            let k9_ = fun _ ->
              let n_2 =
                addi64
                  (index_byte (slice_from b (Zpos XH)) (Zpos (XO (XI (XO (XO
                    (XO XH))))))) (Zpos (XO XH))
              in
              if Z.leb n_2 (Zpos XH)
              then Some ((([], (slice_from b (len b))), json_Undefined),
                     (Some JErrSyntax))
              else k8_ n_2
            in
            if Z.geb (len b) (Zpos (XI (XO (XO XH))))
            then let u =
                   xor64 (le64 (slice_from b (Zpos XH))) (Zpos (XO (XI (XO
                     (XO (XO (XI (XO (XO (XO (XI (XO (XO (XO (XI (XO (XO (XO
                     (XI (XO (XO (XO (XI (XO (XO (XO (XI (XO (XO (XO (XI (XO
                     (XO (XO (XI (XO (XO (XO (XI (XO (XO (XO (XI (XO (XO (XO
                     (XI (XO (XO (XO (XI (XO (XO (XO (XI (XO (XO (XO (XI (XO
                     (XO (XO
                     XH))))))))))))))))))))))))))))))))))))))))))))))))))))))))))))))
                 in
                 let mask_1 =
                   and64
                     (and64
                       (sub64 u (Zpos (XI (XO (XO (XO (XO (XO (XO (XO (XI (XO
                         (XO (XO (XO (XO (XO (XO (XI (XO (XO (XO (XO (XO (XO
                         (XO (XI (XO (XO (XO (XO (XO (XO (XO (XI (XO (XO (XO
                         (XO (XO (XO (XO (XI (XO (XO (XO (XO (XO (XO (XO (XI
                         (XO (XO (XO (XO (XO (XO (XO
                         XH))))))))))))))))))))))))))))))))))))))))))))))))))))))))))
                       (not64 u)) (Zpos (XO (XO (XO (XO (XO (XO (XO (XI (XO
                     (XO (XO (XO (XO (XO (XO (XI (XO (XO (XO (XO (XO (XO (XO
                     (XI (XO (XO (XO (XO (XO (XO (XO (XI (XO (XO (XO (XO (XO
                     (XO (XO (XI (XO (XO (XO (XO (XO (XO (XO (XI (XO (XO (XO
                     (XO (XO (XO (XO (XI (XO (XO (XO (XO (XO (XO (XO
                     XH))))))))))))))))))))))))))))))))))))))))))))))))))))))))))))))))
                 in
                 if negb (Z.eqb mask_1 Z0)
                 then let n_2 =
                        addi64
                          (divi64 (ctz64 mask_1) (Zpos (XO (XO (XO XH)))))
                          (Zpos (XO XH))
                      in
                      k8_ n_2
                 else if Z.geb (len b) (Zpos (XI (XO (XO (XO XH)))))
                      then let u0 =
                             xor64
                               (le64 (slice_from b (Zpos (XI (XO (XO XH))))))
                               (Zpos (XO (XI (XO (XO (XO (XI (XO (XO (XO (XI
                               (XO (XO (XO (XI (XO (XO (XO (XI (XO (XO (XO
                               (XI (XO (XO (XO (XI (XO (XO (XO (XI (XO (XO
                               (XO (XI (XO (XO (XO (XI (XO (XO (XO (XI (XO
                               (XO (XO (XI (XO (XO (XO (XI (XO (XO (XO (XI
                               (XO (XO (XO (XI (XO (XO (XO
                               XH))))))))))))))))))))))))))))))))))))))))))))))))))))))))))))))
                           in
                           let mask0 =
                             and64
                               (and64
                                 (sub64 u0 (Zpos (XI (XO (XO (XO (XO (XO (XO
                                   (XO (XI (XO (XO (XO (XO (XO (XO (XO (XI
                                   (XO (XO (XO (XO (XO (XO (XO (XI (XO (XO
                                   (XO (XO (XO (XO (XO (XI (XO (XO (XO (XO
                                   (XO (XO (XO (XI (XO (XO (XO (XO (XO (XO
                                   (XO (XI (XO (XO (XO (XO (XO (XO (XO
                                   XH))))))))))))))))))))))))))))))))))))))))))))))))))))))))))
                                 (not64 u0)) (Zpos (XO (XO (XO (XO (XO (XO
                               (XO (XI (XO (XO (XO (XO (XO (XO (XO (XI (XO
                               (XO (XO (XO (XO (XO (XO (XI (XO (XO (XO (XO
                               (XO (XO (XO (XI (XO (XO (XO (XO (XO (XO (XO
                               (XI (XO (XO (XO (XO (XO (XO (XO (XI (XO (XO
                               (XO (XO (XO (XO (XO (XI (XO (XO (XO (XO (XO
                               (XO (XO
                               XH))))))))))))))))))))))))))))))))))))))))))))))))))))))))))))))))
                           in
                           if negb (Z.eqb mask0 Z0)
                           then let n_2 =
                                  addi64
                                    (divi64 (ctz64 mask0) (Zpos (XO (XO (XO
                                      XH))))) (Zpos (XO (XI (XO XH))))
                                in
                                k8_ n_2
                           else k9_ n_1
                      else k9_ n_1
            else k9_ n_1

(** val json_decoder_parseTrue :
    z -> bytes -> ((bytes * bytes) * z) * json_err option **)

let json_decoder_parseTrue _ b =
  if json_hasTruePrefix b
  then ((((slice_to b (Zpos (XO (XO XH)))),
         (slice_from b (Zpos (XO (XO XH))))), json_True), None)
  else if Z.ltb (len b) (Zpos (XO (XO XH)))
       then ((([], (slice_from b (len b))), json_Undefined), (Some
              JErrUnexpectedEOF))
       else ((([], b), json_Undefined), (Some JErrSyntax))

(** val json_decoder_parseArray :
    nat -> z -> bytes -> (((bytes * bytes) * z) * json_err option) option **)

let rec json_decoder_parseArray fuel d b =
  match fuel with
  | O -> None
  | S fuel' ->
    if Z.ltb (len b) (Zpos (XO XH))
    then Some ((([], (slice_from b (len b))), json_Undefined), (Some
           JErrUnexpectedEOF))
    else if negb (Z.eqb (at_ b Z0) (Zpos (XI (XI (XO (XI (XI (XO XH))))))))
         then Some ((([], b), json_Undefined), (Some JErrSyntax))
         else let err = None in
              let n0 = len b in
              let i = Z0 in
              let b0 = slice_from b (Zpos XH) in
              let rec loop2_ f3_ b1 _ i0 =
                match f3_ with
                | O -> None
                | S f4_ ->
                  let b2 = json_skipSpaces b1 in
                  if Z.eqb (len b2) Z0
                  then Some ((([], b2), json_Undefined), (Some JErrSyntax))
                  else if Z.eqb (at_ b2 Z0) (Zpos (XI (XO (XI (XI (XI (XO
                            XH)))))))
                       then let j = addi64 (subi64 n0 (len b2)) (Zpos XH) in
                            Some ((((slice_to b j), (slice_from b j)),
                            json_Array), None)
                       else let k5_ = fun b3 ->
                              obind (json_decoder_parseValue fuel' d b3)
                                (fun pat ->
                                let (p, err0) = pat in
                                let (p0, _) = p in
                                let (_, b4) = p0 in
                                if negb (isnil err0)
                                then Some ((([], b4), json_Undefined), err0)
                                else let i1 = addi64 i0 (Zpos XH) in
                                     loop2_ f4_ b4 err0 i1)
                            in
                            if negb (Z.eqb i0 Z0)
                            then if Z.eqb (len b2) Z0
                                 then Some ((([], b2), json_Undefined), (Some
                                        JErrSyntax))
                                 else if negb
                                           (Z.eqb (at_ b2 Z0) (Zpos (XO (XO
                                             (XI (XI (XO XH)))))))
                                      then Some ((([], b2), json_Undefined),
                                             (Some JErrSyntax))
                                      else let b3 =
                                             json_skipSpaces
                                               (slice_from b2 (Zpos XH))
                                           in
                                           if Z.eqb (len b3) Z0
                                           then Some ((([], b3),
                                                  json_Undefined), (Some
                                                  JErrUnexpectedEOF))
                                           else if Z.eqb (at_ b3 Z0) (Zpos
                                                     (XI (XO (XI (XI (XI (XO
                                                     XH)))))))
                                                then Some ((([], b3),
                                                       json_Undefined), (Some
                                                       JErrSyntax))
                                                else k5_ b3
                            else k5_ b2
              in loop2_ fuel' b0 err i

(** val json_decoder_parseObject :
    nat -> z -> bytes -> (((bytes * bytes) * z) * json_err option) option **)

and json_decoder_parseObject fuel d b =
  match fuel with
  | O -> None
  | S fuel' ->
    if Z.ltb (len b) (Zpos (XO XH))
    then Some ((([], (slice_from b (len b))), json_Undefined), (Some
           JErrUnexpectedEOF))
    else if negb (Z.eqb (at_ b Z0) (Zpos (XI (XI (XO (XI (XI (XI XH))))))))
         then Some ((([], b), json_Undefined), (Some JErrSyntax))
         else let err = None in
              let n0 = len b in
              let i = Z0 in
              let b0 = slice_from b (Zpos XH) in
              let rec loop2_ f3_ b1 _ i0 =
                match f3_ with
                | O -> None
                | S f4_ ->
                  let b2 = json_skipSpaces b1 in
                  if Z.eqb (len b2) Z0
                  then Some ((([], b2), json_Undefined), (Some JErrSyntax))
                  else if Z.eqb (at_ b2 Z0) (Zpos (XI (XO (XI (XI (XI (XI
                            XH)))))))
                       then let j = addi64 (subi64 n0 (len b2)) (Zpos XH) in
                            Some ((((slice_to b j), (slice_from b j)),
                            json_Object), None)
                       else let k5_ = fun b3 ->
                              obind (json_decoder_parseString fuel' d b3)
                                (fun pat ->
                                let (p, err0) = pat in
                                let (p0, _) = p in
                                let (_, b4) = p0 in
                                if negb (isnil err0)
                                then Some ((([], b4), json_Undefined), err0)
                                else let b5 = json_skipSpaces b4 in
                                     if Z.eqb (len b5) Z0
                                     then Some ((([], b5), json_Undefined),
                                            (Some JErrSyntax))
                                     else if negb
                                               (Z.eqb (at_ b5 Z0) (Zpos (XO
                                                 (XI (XO (XI (XI XH)))))))
                                          then Some ((([], b5),
                                                 json_Undefined), (Some
                                                 JErrSyntax))
                                          else let b6 =
                                                 json_skipSpaces
                                                   (slice_from b5 (Zpos XH))
                                               in
                                               obind
                                                 (json_decoder_parseValue
                                                   fuel' d b6) (fun pat0 ->
                                                 let (p1, err1) = pat0 in
                                                 let (p2, _) = p1 in
                                                 let (_, b7) = p2 in
                                                 if negb (isnil err1)
                                                 then Some ((([], b7),
                                                        json_Undefined), err1)
                                                 else let i1 =
                                                        addi64 i0 (Zpos XH)
                                                      in
                                                      loop2_ f4_ b7 err1 i1))
                            in
                            if negb (Z.eqb i0 Z0)
                            then if Z.eqb (len b2) Z0
                                 then Some ((([], b2), json_Undefined), (Some
                                        JErrSyntax))
                                 else if negb
                                           (Z.eqb (at_ b2 Z0) (Zpos (XO (XO
                                             (XI (XI (XO XH)))))))
                                      then Some ((([], b2), json_Undefined),
                                             (Some JErrSyntax))
                                      else let b3 =
                                             json_skipSpaces
                                               (slice_from b2 (Zpos XH))
                                           in
                                           if Z.eqb (len b3) Z0
                                           then Some ((([], b3),
                                                  json_Undefined), (Some
                                                  JErrUnexpectedEOF))
                                           else if Z.eqb (at_ b3 Z0) (Zpos
                                                     (XI (XO (XI (XI (XI (XI
                                                     XH)))))))
                                                then Some ((([], b3),
                                                       json_Undefined), (Some
                                                       JErrSyntax))
                                                else k5_ b3
                            else k5_ b2
              in loop2_ fuel' b0 err i

(** val json_decoder_parseValue :
    nat -> z -> bytes -> (((bytes * bytes) * z) * json_err option) option **)

and json_decoder_parseValue fuel d b =
  match fuel with
  | O -> None
  | S fuel' ->
    if Z.eqb (len b) Z0
    then Some ((([], b), json_Undefined), (Some JErrSyntax))
    else let v = [] in
         let k = Z0 in
         let k1_ = fun b0 v0 k0 err -> Some (((v0, b0), k0), err) in
         let tag2_ = at_ b Z0 in
         if Z.eqb tag2_ (Zpos (XI (XI (XO (XI (XI (XI XH)))))))
         then obind (json_decoder_parseObject fuel' d b) (fun pat ->
                let (p, err) = pat in
                let (p0, k0) = p in let (v0, b0) = p0 in k1_ b0 v0 k0 err)
         else if Z.eqb tag2_ (Zpos (XI (XI (XO (XI (XI (XO XH)))))))
              then obind (json_decoder_parseArray fuel' d b) (fun pat ->
                     let (p, err) = pat in
                     let (p0, k0) = p in let (v0, b0) = p0 in k1_ b0 v0 k0 err)
              else if Z.eqb tag2_ (Zpos (XO (XI (XO (XO (XO XH))))))
                   then obind (json_decoder_parseString fuel' d b)
                          (fun pat ->
                          let (p, err) = pat in
                          let (p0, k0) = p in
                          let (v0, b0) = p0 in k1_ b0 v0 k0 err)
                   else if Z.eqb tag2_ (Zpos (XO (XI (XI (XI (XO (XI XH)))))))
                        then let (p, err) = json_decoder_parseNull d b in
                             let (p0, k0) = p in
                             let (v0, b0) = p0 in k1_ b0 v0 k0 err
                        else if Z.eqb tag2_ (Zpos (XO (XO (XI (XO (XI (XI
                                  XH)))))))
                             then let (p, err) = json_decoder_parseTrue d b in
                                  let (p0, k0) = p in
                                  let (v0, b0) = p0 in k1_ b0 v0 k0 err
                             else if Z.eqb tag2_ (Zpos (XO (XI (XI (XO (XO
                                       (XI XH)))))))
                                  then let (p, err) =
                                         json_decoder_parseFalse d b
                                       in
                                       let (p0, k0) = p in
                                       let (v0, b0) = p0 in k1_ b0 v0 k0 err
                                  else if (||)
                                            ((||)
                                              ((||)
                                                ((||)
                                                  ((||)
                                                    ((||)
                                                      ((||)
                                                        ((||)
                                                          ((||)
                                                            ((||)
                                                              (Z.eqb tag2_
                                                                (Zpos (XI (XO
                                                                (XI (XI (XO
                                                                XH)))))))
                                                              (Z.eqb tag2_
                                                                (Zpos (XO (XO
                                                                (XO (XO (XI
                                                                XH))))))))
                                                            (Z.eqb tag2_
                                                              (Zpos (XI (XO
                                                              (XO (XO (XI
                                                              XH))))))))
                                                          (Z.eqb tag2_ (Zpos
                                                            (XO (XI (XO (XO
                                                            (XI XH))))))))
                                                        (Z.eqb tag2_ (Zpos
                                                          (XI (XI (XO (XO (XI
                                                          XH))))))))
                                                      (Z.eqb tag2_ (Zpos (XO
                                                        (XO (XI (XO (XI
                                                        XH))))))))
                                                    (Z.eqb tag2_ (Zpos (XI
                                                      (XO (XI (XO (XI
                                                      XH))))))))
                                                  (Z.eqb tag2_ (Zpos (XO (XI
                                                    (XI (XO (XI XH))))))))
                                                (Z.eqb tag2_ (Zpos (XI (XI
                                                  (XI (XO (XI XH))))))))
                                              (Z.eqb tag2_ (Zpos (XO (XO (XO
                                                (XI (XI XH))))))))
                                            (Z.eqb tag2_ (Zpos (XI (XO (XO
                                              (XI (XI XH)))))))
                                       then obind
                                              (json_decoder_parseNumber fuel'
                                                d b) (fun pat ->
                                              let (p, err) = pat in
                                              let (p0, k0) = p in
                                              let (v0, b0) = p0 in
                                              k1_ b0 v0 k0 err)
                                       else let err = Some JErrSyntax in
                                            k1_ b v k err

(** val json_expand : z -> z **)

let json_expand b =
  mul64 json_lsb b

(** val json_below : z -> z -> z **)

let json_below n0 b =
  sub64 n0 (json_expand b)

(** val json_contains : z -> z -> z **)

let json_contains n0 b =
  sub64 (xor64 n0 (json_expand b)) json_lsb

(** val json_escapeIndex : nat -> bytes -> bool -> z option **)

let json_escapeIndex fuel s escapeHTML =
  let chunks = chunks64 s in
  let k5_ = fun _ ->
    let i = muli64 (len chunks) (Zpos (XO (XO (XO XH)))) in
    let k1_ = fun _ -> Some (Zneg XH) in
    let rec loop2_ f3_ i0 =
      match f3_ with
      | O -> None
      | S f4_ ->
        if Z.ltb i0 (len s)
        then let c = at_ s i0 in
             if (||)
                  ((||)
                    ((||)
                      ((||) (Z.ltb c (Zpos (XO (XO (XO (XO (XO XH)))))))
                        (Z.gtb c (Zpos (XI (XI (XI (XI (XI (XI XH)))))))))
                      (Z.eqb c (Zpos (XO (XI (XO (XO (XO XH))))))))
                    (Z.eqb c (Zpos (XO (XO (XI (XI (XI (XO XH)))))))))
                  ((&&) escapeHTML
                    ((||)
                      ((||) (Z.eqb c (Zpos (XO (XO (XI (XI (XI XH)))))))
                        (Z.eqb c (Zpos (XO (XI (XI (XI (XI XH))))))))
                      (Z.eqb c (Zpos (XO (XI (XI (XO (XO XH)))))))))
             then Some i0
             else let i1 = addi64 i0 (Zpos XH) in loop2_ f4_ i1
        else k1_ i0
    in loop2_ fuel i
  in
  let rec loop6_ l7_ i8_ =
    match l7_ with
    | [] -> k5_ ()
    | h9_ :: t10_ ->
      let mask0 =
        or64
          (or64
            (or64 h9_ (json_below h9_ (Zpos (XO (XO (XO (XO (XO XH))))))))
            (json_contains h9_ (Zpos (XO (XI (XO (XO (XO XH))))))))
          (json_contains h9_ (Zpos (XO (XO (XI (XI (XI (XO XH))))))))
      in
      let k11_ = fun mask1 ->
        if negb (Z.eqb (and64 mask1 json_msb) Z0)
        then Some
               (divi64 (ctz64 (and64 mask1 json_msb)) (Zpos (XO (XO (XO
                 XH)))))
        else loop6_ t10_ (Z.add i8_ (Zpos XH))
      in
      if escapeHTML
      then let mask1 =
             or64 mask0
               (or64
                 (or64 (json_contains h9_ (Zpos (XO (XO (XI (XI (XI XH)))))))
                   (json_contains h9_ (Zpos (XO (XI (XI (XI (XI XH))))))))
                 (json_contains h9_ (Zpos (XO (XI (XI (XO (XO XH))))))))
           in
           k11_ mask1
      else k11_ mask0
  in loop6_ chunks Z0

(** val json_Valid : nat -> bytes -> bool option **)

let json_Valid fuel data =
  let data0 = json_skipSpaces data in
  obind (json_internalParseFlags fuel data0) (fun d ->
    obind (json_decoder_parseValue fuel d data0) (fun pat ->
      let (p, err) = pat in
      let (p0, _) = p in
      let (_, data1) = p0 in
      if negb (isnil err)
      then Some false
      else Some (Z.eqb (len (json_skipSpaces data1)) Z0)))

(** val is_ws : z -> bool **)

let is_ws c =
  (||)
    ((||)
      ((||) (Z.eqb c (Zpos (XO (XO (XO (XO (XO XH)))))))
        (Z.eqb c (Zpos (XI (XO (XO XH))))))
      (Z.eqb c (Zpos (XO (XI (XO XH)))))) (Z.eqb c (Zpos (XI (XO (XI XH)))))

(** val skip_ws : bytes -> bytes **)

let rec skip_ws b = match b with
| [] -> []
| c :: r -> if is_ws c then skip_ws r else b

(** val is_digit : z -> bool **)

let is_digit c =
  (&&) (Z.leb (Zpos (XO (XO (XO (XO (XI XH)))))) c)
    (Z.leb c (Zpos (XI (XO (XO (XI (XI XH)))))))

(** val is_hex : z -> bool **)

let is_hex c =
  (||)
    ((||) (is_digit c)
      ((&&) (Z.leb (Zpos (XI (XO (XO (XO (XO (XO XH))))))) c)
        (Z.leb c (Zpos (XO (XI (XI (XO (XO (XO XH))))))))))
    ((&&) (Z.leb (Zpos (XI (XO (XO (XO (XO (XI XH))))))) c)
      (Z.leb c (Zpos (XO (XI (XI (XO (XO (XI XH)))))))))

(** val is_escape_letter : z -> bool **)

let is_escape_letter c =
  (||)
    ((||)
      ((||)
        ((||)
          ((||)
            ((||)
              ((||) (Z.eqb c (Zpos (XO (XI (XO (XO (XO XH)))))))
                (Z.eqb c (Zpos (XO (XO (XI (XI (XI (XO XH)))))))))
              (Z.eqb c (Zpos (XI (XI (XI (XI (XO XH))))))))
            (Z.eqb c (Zpos (XO (XI (XO (XO (XO (XI XH)))))))))
          (Z.eqb c (Zpos (XO (XI (XI (XO (XO (XI XH)))))))))
        (Z.eqb c (Zpos (XO (XI (XI (XI (XO (XI XH)))))))))
      (Z.eqb c (Zpos (XO (XI (XO (XO (XI (XI XH)))))))))
    (Z.eqb c (Zpos (XO (XO (XI (XO (XI (XI XH))))))))

(** val g_string : bytes -> bytes option **)

let rec g_string = function
| [] -> None
| c :: r ->
  (match c with
   | Zpos p ->
     (match p with
      | XO p0 ->
        (match p0 with
         | XI p1 ->
           (match p1 with
            | XO p2 ->
              (match p2 with
               | XO p3 ->
                 (match p3 with
                  | XO p4 ->
                    (match p4 with
                     | XH -> Some r
                     | _ ->
                       if Z.ltb c (Zpos (XO (XO (XO (XO (XO XH))))))
                       then None
                       else g_string r)
                  | _ ->
                    if Z.ltb c (Zpos (XO (XO (XO (XO (XO XH))))))
                    then None
                    else g_string r)
               | _ ->
                 if Z.ltb c (Zpos (XO (XO (XO (XO (XO XH))))))
                 then None
                 else g_string r)
            | _ ->
              if Z.ltb c (Zpos (XO (XO (XO (XO (XO XH))))))
              then None
              else g_string r)
         | XO p1 ->
           (match p1 with
            | XI p2 ->
              (match p2 with
               | XI p3 ->
                 (match p3 with
                  | XI p4 ->
                    (match p4 with
                     | XO p5 ->
                       (match p5 with
                        | XH ->
                          (match r with
                           | [] -> None
                           | e :: r0 ->
                             if is_escape_letter e
                             then g_string r0
                             else if Z.eqb e (Zpos (XI (XO (XI (XO (XI (XI
                                       XH)))))))
                                  then (match r0 with
                                        | [] -> None
                                        | h1 :: l ->
                                          (match l with
                                           | [] -> None
                                           | h2 :: l0 ->
                                             (match l0 with
                                              | [] -> None
                                              | h3 :: l1 ->
                                                (match l1 with
                                                 | [] -> None
                                                 | h4 :: r' ->
                                                   if (&&)
                                                        ((&&)
                                                          ((&&) (is_hex h1)
                                                            (is_hex h2))
                                                          (is_hex h3))
                                                        (is_hex h4)
                                                   then g_string r'
                                                   else None))))
                                  else None)
                        | _ ->
                          if Z.ltb c (Zpos (XO (XO (XO (XO (XO XH))))))
                          then None
                          else g_string r)
                     | _ ->
                       if Z.ltb c (Zpos (XO (XO (XO (XO (XO XH))))))
                       then None
                       else g_string r)
                  | _ ->
                    if Z.ltb c (Zpos (XO (XO (XO (XO (XO XH))))))
                    then None
                    else g_string r)
               | _ ->
                 if Z.ltb c (Zpos (XO (XO (XO (XO (XO XH))))))
                 then None
                 else g_string r)
            | _ ->
              if Z.ltb c (Zpos (XO (XO (XO (XO (XO XH))))))
              then None
              else g_string r)
         | XH ->
           if Z.ltb c (Zpos (XO (XO (XO (XO (XO XH))))))
           then None
           else g_string r)
      | _ ->
        if Z.ltb c (Zpos (XO (XO (XO (XO (XO XH))))))
        then None
        else g_string r)
   | _ ->
     if Z.ltb c (Zpos (XO (XO (XO (XO (XO XH)))))) then None else g_string r)

(** val skip_digits : bytes -> bytes **)

let rec skip_digits b = match b with
| [] -> []
| c :: r -> if is_digit c then skip_digits r else b

(** val g_frac : bytes -> bytes option **)

let g_frac b = match b with
| [] -> Some b
| z0 :: l ->
  (match z0 with
   | Zpos p ->
     (match p with
      | XO p0 ->
        (match p0 with
         | XI p1 ->
           (match p1 with
            | XI p2 ->
              (match p2 with
               | XI p3 ->
                 (match p3 with
                  | XO p4 ->
                    (match p4 with
                     | XH ->
                       (match l with
                        | [] -> None
                        | d :: r ->
                          if is_digit d then Some (skip_digits r) else None)
                     | _ -> Some b)
                  | _ -> Some b)
               | _ -> Some b)
            | _ -> Some b)
         | _ -> Some b)
      | _ -> Some b)
   | _ -> Some b)

(** val g_exp : bytes -> bytes option **)

let g_exp b = match b with
| [] -> Some b
| e :: r ->
  if (||) (Z.eqb e (Zpos (XI (XO (XI (XO (XO (XI XH))))))))
       (Z.eqb e (Zpos (XI (XO (XI (XO (XO (XO XH))))))))
  then let r0 =
         match r with
         | [] -> r
         | s :: r' ->
           if (||) (Z.eqb s (Zpos (XI (XI (XO (XI (XO XH)))))))
                (Z.eqb s (Zpos (XI (XO (XI (XI (XO XH)))))))
           then r'
           else r
       in
       (match r0 with
        | [] -> None
        | d :: r' -> if is_digit d then Some (skip_digits r') else None)
  else Some b

(** val g_number : bytes -> bytes option **)

let g_number b =
  let b0 =
    match b with
    | [] -> b
    | z0 :: r ->
      (match z0 with
       | Zpos p ->
         (match p with
          | XI p0 ->
            (match p0 with
             | XO p1 ->
               (match p1 with
                | XI p2 ->
                  (match p2 with
                   | XI p3 ->
                     (match p3 with
                      | XO p4 -> (match p4 with
                                  | XH -> r
                                  | _ -> b)
                      | _ -> b)
                   | _ -> b)
                | _ -> b)
             | _ -> b)
          | _ -> b)
       | _ -> b)
  in
  (match b0 with
   | [] -> None
   | c :: r ->
     (match c with
      | Zpos p ->
        (match p with
         | XO p0 ->
           (match p0 with
            | XO p1 ->
              (match p1 with
               | XO p2 ->
                 (match p2 with
                  | XO p3 ->
                    (match p3 with
                     | XI p4 ->
                       (match p4 with
                        | XH ->
                          (match g_frac r with
                           | Some r0 -> g_exp r0
                           | None -> None)
                        | _ ->
                          if is_digit c
                          then (match g_frac (skip_digits r) with
                                | Some r0 -> g_exp r0
                                | None -> None)
                          else None)
                     | _ ->
                       if is_digit c
                       then (match g_frac (skip_digits r) with
                             | Some r0 -> g_exp r0
                             | None -> None)
                       else None)
                  | _ ->
                    if is_digit c
                    then (match g_frac (skip_digits r) with
                          | Some r0 -> g_exp r0
                          | None -> None)
                    else None)
               | _ ->
                 if is_digit c
                 then (match g_frac (skip_digits r) with
                       | Some r0 -> g_exp r0
                       | None -> None)
                 else None)
            | _ ->
              if is_digit c
              then (match g_frac (skip_digits r) with
                    | Some r0 -> g_exp r0
                    | None -> None)
              else None)
         | _ ->
           if is_digit c
           then (match g_frac (skip_digits r) with
                 | Some r0 -> g_exp r0
                 | None -> None)
           else None)
      | _ ->
        if is_digit c
        then (match g_frac (skip_digits r) with
              | Some r0 -> g_exp r0
              | None -> None)
        else None))

(** val g_value : nat -> bytes -> bytes option **)

let rec g_value fuel b =
  match fuel with
  | O -> None
  | S f ->
    (match b with
     | [] -> g_number b
     | z0 :: r ->
       (match z0 with
        | Zpos p ->
          (match p with
           | XI p0 ->
             (match p0 with
              | XI p1 ->
                (match p1 with
                 | XO p2 ->
                   (match p2 with
                    | XI p3 ->
                      (match p3 with
                       | XI p4 ->
                         (match p4 with
                          | XI p5 ->
                            (match p5 with
                             | XH ->
                               (match skip_ws r with
                                | [] ->
                                  let rec members n0 b0 =
                                    match n0 with
                                    | O -> None
                                    | S n' ->
                                      (match b0 with
                                       | [] -> None
                                       | z1 :: k ->
                                         (match z1 with
                                          | Zpos p6 ->
                                            (match p6 with
                                             | XO p7 ->
                                               (match p7 with
                                                | XI p8 ->
                                                  (match p8 with
                                                   | XO p9 ->
                                                     (match p9 with
                                                      | XO p10 ->
                                                        (match p10 with
                                                         | XO p11 ->
                                                           (match p11 with
                                                            | XH ->
                                                              (match 
                                                               g_string k with
                                                               | Some r0 ->
                                                                 (match 
                                                                  skip_ws r0 with
                                                                  | [] -> None
                                                                  | z2 :: r' ->
                                                                    (match z2 with
                                                                    | Zpos p12 ->
                                                                    (match p12 with
                                                                    | XO p13 ->
                                                                    (match p13 with
                                                                    | XI p14 ->
                                                                    (match p14 with
                                                                    | XO p15 ->
                                                                    (match p15 with
                                                                    | XI p16 ->
                                                                    (match p16 with
                                                                    | XI p17 ->
                                                                    (match p17 with
                                                                    | XH ->
                                                                    (match 
                                                                    g_value f
                                                                    (skip_ws
                                                                    r') with
                                                                    | Some r1 ->
                                                                    (match 
                                                                    skip_ws r1 with
                                                                    | [] ->
                                                                    None
                                                                    | z3 :: r'0 ->
                                                                    (match z3 with
                                                                    | Zpos p18 ->
                                                                    (match p18 with
                                                                    | XI p19 ->
                                                                    (match p19 with
                                                                    | XO p20 ->
                                                                    (match p20 with
                                                                    | XI p21 ->
                                                                    (match p21 with
                                                                    | XI p22 ->
                                                                    (match p22 with
                                                                    | XI p23 ->
                                                                    (match p23 with
                                                                    | XI p24 ->
                                                                    (match p24 with
                                                                    | XH ->
                                                                    Some r'0
                                                                    | _ ->
                                                                    None)
                                                                    | _ ->
                                                                    None)
                                                                    | _ ->
                                                                    None)
                                                                    | _ ->
                                                                    None)
                                                                    | _ ->
                                                                    None)
                                                                    | _ ->
                                                                    None)
                                                                    | XO p19 ->
                                                                    (match p19 with
                                                                    | XO p20 ->
                                                                    (match p20 with
                                                                    | XI p21 ->
                                                                    (match p21 with
                                                                    | XI p22 ->
                                                                    (match p22 with
                                                                    | XO p23 ->
                                                                    (match p23 with
                                                                    | XH ->
                                                                    members
                                                                    n'
                                                                    (skip_ws
                                                                    r'0)
                                                                    | _ ->
                                                                    None)
                                                                    | _ ->
                                                                    None)
                                                                    | _ ->
                                                                    None)
                                                                    | _ ->
                                                                    None)
                                                                    | _ ->
                                                                    None)
                                                                    | XH ->
                                                                    None)
                                                                    | _ ->
                                                                    None))
                                                                    | None ->
                                                                    None)
                                                                    | _ ->
                                                                    None)
                                                                    | _ ->
                                                                    None)
                                                                    | _ ->
                                                                    None)
                                                                    | _ ->
                                                                    None)
                                                                    | _ ->
                                                                    None)
                                                                    | _ ->
                                                                    None)
                                                                    | _ ->
                                                                    None))
                                                               | None -> None)
                                                            | _ -> None)
                                                         | _ -> None)
                                                      | _ -> None)
                                                   | _ -> None)
                                                | _ -> None)
                                             | _ -> None)
                                          | _ -> None))
                                  in members f []
                                | z1 :: r' ->
                                  (match z1 with
                                   | Zpos p6 ->
                                     (match p6 with
                                      | XI p7 ->
                                        (match p7 with
                                         | XO p8 ->
                                           (match p8 with
                                            | XI p9 ->
                                              (match p9 with
                                               | XI p10 ->
                                                 (match p10 with
                                                  | XI p11 ->
                                                    (match p11 with
                                                     | XI p12 ->
                                                       (match p12 with
                                                        | XH -> Some r'
                                                        | x ->
                                                          let rec members n0 b0 =
                                                            match n0 with
                                                            | O -> None
                                                            | S n' ->
                                                              (match b0 with
                                                               | [] -> None
                                                               | z2 :: k ->
                                                                 (match z2 with
                                                                  | Zpos p13 ->
                                                                    (match p13 with
                                                                    | XO p14 ->
                                                                    (match p14 with
                                                                    | XI p15 ->
                                                                    (match p15 with
                                                                    | XO p16 ->
                                                                    (match p16 with
                                                                    | XO p17 ->
                                                                    (match p17 with
                                                                    | XO p18 ->
                                                                    (match p18 with
                                                                    | XH ->
                                                                    (match 
                                                                    g_string k with
                                                                    | Some r0 ->
                                                                    (match 
                                                                    skip_ws r0 with
                                                                    | [] ->
                                                                    None
                                                                    | z3 :: r'0 ->
                                                                    (match z3 with
                                                                    | Zpos p19 ->
                                                                    (match p19 with
                                                                    | XO p20 ->
                                                                    (match p20 with
                                                                    | XI p21 ->
                                                                    (match p21 with
                                                                    | XO p22 ->
                                                                    (match p22 with
                                                                    | XI p23 ->
                                                                    (match p23 with
                                                                    | XI p24 ->
                                                                    (match p24 with
                                                                    | XH ->
                                                                    (match 
                                                                    g_value f
                                                                    (skip_ws
                                                                    r'0) with
                                                                    | Some r1 ->
                                                                    (match 
                                                                    skip_ws r1 with
                                                                    | [] ->
                                                                    None
                                                                    | z4 :: r'1 ->
                                                                    (match z4 with
                                                                    | Zpos p25 ->
                                                                    (match p25 with
                                                                    | XI p26 ->
                                                                    (match p26 with
                                                                    | XO p27 ->
                                                                    (match p27 with
                                                                    | XI p28 ->
                                                                    (match p28 with
                                                                    | XI p29 ->
                                                                    (match p29 with
                                                                    | XI p30 ->
                                                                    (match p30 with
                                                                    | XI p31 ->
                                                                    (match p31 with
                                                                    | XH ->
                                                                    Some r'1
                                                                    | _ ->
                                                                    None)
                                                                    | _ ->
                                                                    None)
                                                                    | _ ->
                                                                    None)
                                                                    | _ ->
                                                                    None)
                                                                    | _ ->
                                                                    None)
                                                                    | _ ->
                                                                    None)
                                                                    | XO p26 ->
                                                                    (match p26 with
                                                                    | XO p27 ->
                                                                    (match p27 with
                                                                    | XI p28 ->
                                                                    (match p28 with
                                                                    | XI p29 ->
                                                                    (match p29 with
                                                                    | XO p30 ->
                                                                    (match p30 with
                                                                    | XH ->
                                                                    members
                                                                    n'
                                                                    (skip_ws
                                                                    r'1)
                                                                    | _ ->
                                                                    None)
                                                                    | _ ->
                                                                    None)
                                                                    | _ ->
                                                                    None)
                                                                    | _ ->
                                                                    None)
                                                                    | _ ->
                                                                    None)
                                                                    | XH ->
                                                                    None)
                                                                    | _ ->
                                                                    None))
                                                                    | None ->
                                                                    None)
                                                                    | _ ->
                                                                    None)
                                                                    | _ ->
                                                                    None)
                                                                    | _ ->
                                                                    None)
                                                                    | _ ->
                                                                    None)
                                                                    | _ ->
                                                                    None)
                                                                    | _ ->
                                                                    None)
                                                                    | _ ->
                                                                    None))
                                                                    | None ->
                                                                    None)
                                                                    | _ ->
                                                                    None)
                                                                    | _ ->
                                                                    None)
                                                                    | _ ->
                                                                    None)
                                                                    | _ ->
                                                                    None)
                                                                    | _ ->
                                                                    None)
                                                                    | _ ->
                                                                    None)
                                                                  | _ -> None))
                                                          in members f ((Zpos
                                                               (XI (XO (XI
                                                               (XI (XI (XI
                                                               x))))))) :: r'))
                                                     | x ->
                                                       let rec members n0 b0 =
                                                         match n0 with
                                                         | O -> None
                                                         | S n' ->
                                                           (match b0 with
                                                            | [] -> None
                                                            | z2 :: k ->
                                                              (match z2 with
                                                               | Zpos p12 ->
                                                                 (match p12 with
                                                                  | XO p13 ->
                                                                    (match p13 with
                                                                    | XI p14 ->
                                                                    (match p14 with
                                                                    | XO p15 ->
                                                                    (match p15 with
                                                                    | XO p16 ->
                                                                    (match p16 with
                                                                    | XO p17 ->
                                                                    (match p17 with
                                                                    | XH ->
                                                                    (match 
                                                                    g_string k with
                                                                    | Some r0 ->
                                                                    (match 
                                                                    skip_ws r0 with
                                                                    | [] ->
                                                                    None
                                                                    | z3 :: r'0 ->
                                                                    (match z3 with
                                                                    | Zpos p18 ->
                                                                    (match p18 with
                                                                    | XO p19 ->
                                                                    (match p19 with
                                                                    | XI p20 ->
                                                                    (match p20 with
                                                                    | XO p21 ->
                                                                    (match p21 with
                                                                    | XI p22 ->
                                                                    (match p22 with
                                                                    | XI p23 ->
                                                                    (match p23 with
                                                                    | XH ->
                                                                    (match 
                                                                    g_value f
                                                                    (skip_ws
                                                                    r'0) with
                                                                    | Some r1 ->
                                                                    (match 
                                                                    skip_ws r1 with
                                                                    | [] ->
                                                                    None
                                                                    | z4 :: r'1 ->
                                                                    (match z4 with
                                                                    | Zpos p24 ->
                                                                    (match p24 with
                                                                    | XI p25 ->
                                                                    (match p25 with
                                                                    | XO p26 ->
                                                                    (match p26 with
                                                                    | XI p27 ->
                                                                    (match p27 with
                                                                    | XI p28 ->
                                                                    (match p28 with
                                                                    | XI p29 ->
                                                                    (match p29 with
                                                                    | XI p30 ->
                                                                    (match p30 with
                                                                    | XH ->
                                                                    Some r'1
                                                                    | _ ->
                                                                    None)
                                                                    | _ ->
                                                                    None)
                                                                    | _ ->
                                                                    None)
                                                                    | _ ->
                                                                    None)
                                                                    | _ ->
                                                                    None)
                                                                    | _ ->
                                                                    None)
                                                                    | XO p25 ->
                                                                    (match p25 with
                                                                    | XO p26 ->
                                                                    (match p26 with
                                                                    | XI p27 ->
                                                                    (match p27 with
                                                                    | XI p28 ->
                                                                    (match p28 with
                                                                    | XO p29 ->
                                                                    (match p29 with
                                                                    | XH ->
                                                                    members
                                                                    n'
                                                                    (skip_ws
                                                                    r'1)
                                                                    | _ ->
                                                                    None)
                                                                    | _ ->
                                                                    None)
                                                                    | _ ->
                                                                    None)
                                                                    | _ ->
                                                                    None)
                                                                    | _ ->
                                                                    None)
                                                                    | XH ->
                                                                    None)
                                                                    | _ ->
                                                                    None))
                                                                    | None ->
                                                                    None)
                                                                    | _ ->
                                                                    None)
                                                                    | _ ->
                                                                    None)
                                                                    | _ ->
                                                                    None)
                                                                    | _ ->
                                                                    None)
                                                                    | _ ->
                                                                    None)
                                                                    | _ ->
                                                                    None)
                                                                    | _ ->
                                                                    None))
                                                                    | None ->
                                                                    None)
                                                                    | _ ->
                                                                    None)
                                                                    | _ ->
                                                                    None)
                                                                    | _ ->
                                                                    None)
                                                                    | _ ->
                                                                    None)
                                                                    | _ ->
                                                                    None)
                                                                  | _ -> None)
                                                               | _ -> None))
                                                       in members f ((Zpos
                                                            (XI (XO (XI (XI
                                                            (XI x)))))) :: r'))
                                                  | x ->
                                                    let rec members n0 b0 =
                                                      match n0 with
                                                      | O -> None
                                                      | S n' ->
                                                        (match b0 with
                                                         | [] -> None
                                                         | z2 :: k ->
                                                           (match z2 with
                                                            | Zpos p11 ->
                                                              (match p11 with
                                                               | XO p12 ->
                                                                 (match p12 with
                                                                  | XI p13 ->
                                                                    (match p13 with
                                                                    | XO p14 ->
                                                                    (match p14 with
                                                                    | XO p15 ->
                                                                    (match p15 with
                                                                    | XO p16 ->
                                                                    (match p16 with
                                                                    | XH ->
                                                                    (match 
                                                                    g_string k with
                                                                    | Some r0 ->
                                                                    (match 
                                                                    skip_ws r0 with
                                                                    | [] ->
                                                                    None
                                                                    | z3 :: r'0 ->
                                                                    (match z3 with
                                                                    | Zpos p17 ->
                                                                    (match p17 with
                                                                    | XO p18 ->
                                                                    (match p18 with
                                                                    | XI p19 ->
                                                                    (match p19 with
                                                                    | XO p20 ->
                                                                    (match p20 with
                                                                    | XI p21 ->
                                                                    (match p21 with
                                                                    | XI p22 ->
                                                                    (match p22 with
                                                                    | XH ->
                                                                    (match 
                                                                    g_value f
                                                                    (skip_ws
                                                                    r'0) with
                                                                    | Some r1 ->
                                                                    (match 
                                                                    skip_ws r1 with
                                                                    | [] ->
                                                                    None
                                                                    | z4 :: r'1 ->
                                                                    (match z4 with
                                                                    | Zpos p23 ->
                                                                    (match p23 with
                                                                    | XI p24 ->
                                                                    (match p24 with
                                                                    | XO p25 ->
                                                                    (match p25 with
                                                                    | XI p26 ->
                                                                    (match p26 with
                                                                    | XI p27 ->
                                                                    (match p27 with
                                                                    | XI p28 ->
                                                                    (match p28 with
                                                                    | XI p29 ->
                                                                    (match p29 with
                                                                    | XH ->
                                                                    Some r'1
                                                                    | _ ->
                                                                    None)
                                                                    | _ ->
                                                                    None)
                                                                    | _ ->
                                                                    None)
                                                                    | _ ->
                                                                    None)
                                                                    | _ ->
                                                                    None)
                                                                    | _ ->
                                                                    None)
                                                                    | XO p24 ->
                                                                    (match p24 with
                                                                    | XO p25 ->
                                                                    (match p25 with
                                                                    | XI p26 ->
                                                                    (match p26 with
                                                                    | XI p27 ->
                                                                    (match p27 with
                                                                    | XO p28 ->
                                                                    (match p28 with
                                                                    | XH ->
                                                                    members
                                                                    n'
                                                                    (skip_ws
                                                                    r'1)
                                                                    | _ ->
                                                                    None)
                                                                    | _ ->
                                                                    None)
                                                                    | _ ->
                                                                    None)
                                                                    | _ ->
                                                                    None)
                                                                    | _ ->
                                                                    None)
                                                                    | XH ->
                                                                    None)
                                                                    | _ ->
                                                                    None))
                                                                    | None ->
                                                                    None)
                                                                    | _ ->
                                                                    None)
                                                                    | _ ->
                                                                    None)
                                                                    | _ ->
                                                                    None)
                                                                    | _ ->
                                                                    None)
                                                                    | _ ->
                                                                    None)
                                                                    | _ ->
                                                                    None)
                                                                    | _ ->
                                                                    None))
                                                                    | None ->
                                                                    None)
                                                                    | _ ->
                                                                    None)
                                                                    | _ ->
                                                                    None)
                                                                    | _ ->
                                                                    None)
                                                                    | _ ->
                                                                    None)
                                                                  | _ -> None)
                                                               | _ -> None)
                                                            | _ -> None))
                                                    in members f ((Zpos (XI
                                                         (XO (XI (XI
                                                         x))))) :: r'))
                                               | x ->
                                                 let rec members n0 b0 =
                                                   match n0 with
                                                   | O -> None
                                                   | S n' ->
                                                     (match b0 with
                                                      | [] -> None
                                                      | z2 :: k ->
                                                        (match z2 with
                                                         | Zpos p10 ->
                                                           (match p10 with
                                                            | XO p11 ->
                                                              (match p11 with
                                                               | XI p12 ->
                                                                 (match p12 with
                                                                  | XO p13 ->
                                                                    (match p13 with
                                                                    | XO p14 ->
                                                                    (match p14 with
                                                                    | XO p15 ->
                                                                    (match p15 with
                                                                    | XH ->
                                                                    (match 
                                                                    g_string k with
                                                                    | Some r0 ->
                                                                    (match 
                                                                    skip_ws r0 with
                                                                    | [] ->
                                                                    None
                                                                    | z3 :: r'0 ->
                                                                    (match z3 with
                                                                    | Zpos p16 ->
                                                                    (match p16 with
                                                                    | XO p17 ->
                                                                    (match p17 with
                                                                    | XI p18 ->
                                                                    (match p18 with
                                                                    | XO p19 ->
                                                                    (match p19 with
                                                                    | XI p20 ->
                                                                    (match p20 with
                                                                    | XI p21 ->
                                                                    (match p21 with
                                                                    | XH ->
                                                                    (match 
                                                                    g_value f
                                                                    (skip_ws
                                                                    r'0) with
                                                                    | Some r1 ->
                                                                    (match 
                                                                    skip_ws r1 with
                                                                    | [] ->
                                                                    None
                                                                    | z4 :: r'1 ->
                                                                    (match z4 with
                                                                    | Zpos p22 ->
                                                                    (match p22 with
                                                                    | XI p23 ->
                                                                    (match p23 with
                                                                    | XO p24 ->
                                                                    (match p24 with
                                                                    | XI p25 ->
                                                                    (match p25 with
                                                                    | XI p26 ->
                                                                    (match p26 with
                                                                    | XI p27 ->
                                                                    (match p27 with
                                                                    | XI p28 ->
                                                                    (match p28 with
                                                                    | XH ->
                                                                    Some r'1
                                                                    | _ ->
                                                                    None)
                                                                    | _ ->
                                                                    None)
                                                                    | _ ->
                                                                    None)
                                                                    | _ ->
                                                                    None)
                                                                    | _ ->
                                                                    None)
                                                                    | _ ->
                                                                    None)
                                                                    | XO p23 ->
                                                                    (match p23 with
                                                                    | XO p24 ->
                                                                    (match p24 with
                                                                    | XI p25 ->
                                                                    (match p25 with
                                                                    | XI p26 ->
                                                                    (match p26 with
                                                                    | XO p27 ->
                                                                    (match p27 with
                                                                    | XH ->
                                                                    members
                                                                    n'
                                                                    (skip_ws
                                                                    r'1)
                                                                    | _ ->
                                                                    None)
                                                                    | _ ->
                                                                    None)
                                                                    | _ ->
                                                                    None)
                                                                    | _ ->
                                                                    None)
                                                                    | _ ->
                                                                    None)
                                                                    | XH ->
                                                                    None)
                                                                    | _ ->
                                                                    None))
                                                                    | None ->
                                                                    None)
                                                                    | _ ->
                                                                    None)
                                                                    | _ ->
                                                                    None)
                                                                    | _ ->
                                                                    None)
                                                                    | _ ->
                                                                    None)
                                                                    | _ ->
                                                                    None)
                                                                    | _ ->
                                                                    None)
                                                                    | _ ->
                                                                    None))
                                                                    | None ->
                                                                    None)
                                                                    | _ ->
                                                                    None)
                                                                    | _ ->
                                                                    None)
                                                                    | _ ->
                                                                    None)
                                                                  | _ -> None)
                                                               | _ -> None)
                                                            | _ -> None)
                                                         | _ -> None))
                                                 in members f ((Zpos (XI (XO
                                                      (XI x)))) :: r'))
                                            | x ->
                                              let rec members n0 b0 =
                                                match n0 with
                                                | O -> None
                                                | S n' ->
                                                  (match b0 with
                                                   | [] -> None
                                                   | z2 :: k ->
                                                     (match z2 with
                                                      | Zpos p9 ->
                                                        (match p9 with
                                                         | XO p10 ->
                                                           (match p10 with
                                                            | XI p11 ->
                                                              (match p11 with
                                                               | XO p12 ->
                                                                 (match p12 with
                                                                  | XO p13 ->
                                                                    (match p13 with
                                                                    | XO p14 ->
                                                                    (match p14 with
                                                                    | XH ->
                                                                    (match 
                                                                    g_string k with
                                                                    | Some r0 ->
                                                                    (match 
                                                                    skip_ws r0 with
                                                                    | [] ->
                                                                    None
                                                                    | z3 :: r'0 ->
                                                                    (match z3 with
                                                                    | Zpos p15 ->
                                                                    (match p15 with
                                                                    | XO p16 ->
                                                                    (match p16 with
                                                                    | XI p17 ->
                                                                    (match p17 with
                                                                    | XO p18 ->
                                                                    (match p18 with
                                                                    | XI p19 ->
                                                                    (match p19 with
                                                                    | XI p20 ->
                                                                    (match p20 with
                                                                    | XH ->
                                                                    (match 
                                                                    g_value f
                                                                    (skip_ws
                                                                    r'0) with
                                                                    | Some r1 ->
                                                                    (match 
                                                                    skip_ws r1 with
                                                                    | [] ->
                                                                    None
                                                                    | z4 :: r'1 ->
                                                                    (match z4 with
                                                                    | Zpos p21 ->
                                                                    (match p21 with
                                                                    | XI p22 ->
                                                                    (match p22 with
                                                                    | XO p23 ->
                                                                    (match p23 with
                                                                    | XI p24 ->
                                                                    (match p24 with
                                                                    | XI p25 ->
                                                                    (match p25 with
                                                                    | XI p26 ->
                                                                    (match p26 with
                                                                    | XI p27 ->
                                                                    (match p27 with
                                                                    | XH ->
                                                                    Some r'1
                                                                    | _ ->
                                                                    None)
                                                                    | _ ->
                                                                    None)
                                                                    | _ ->
                                                                    None)
                                                                    | _ ->
                                                                    None)
                                                                    | _ ->
                                                                    None)
                                                                    | _ ->
                                                                    None)
                                                                    | XO p22 ->
                                                                    (match p22 with
                                                                    | XO p23 ->
                                                                    (match p23 with
                                                                    | XI p24 ->
                                                                    (match p24 with
                                                                    | XI p25 ->
                                                                    (match p25 with
                                                                    | XO p26 ->
                                                                    (match p26 with
                                                                    | XH ->
                                                                    members
                                                                    n'
                                                                    (skip_ws
                                                                    r'1)
                                                                    | _ ->
                                                                    None)
                                                                    | _ ->
                                                                    None)
                                                                    | _ ->
                                                                    None)
                                                                    | _ ->
                                                                    None)
                                                                    | _ ->
                                                                    None)
                                                                    | XH ->
                                                                    None)
                                                                    | _ ->
                                                                    None))
                                                                    | None ->
                                                                    None)
                                                                    | _ ->
                                                                    None)
                                                                    | _ ->
                                                                    None)
                                                                    | _ ->
                                                                    None)
                                                                    | _ ->
                                                                    None)
                                                                    | _ ->
                                                                    None)
                                                                    | _ ->
                                                                    None)
                                                                    | _ ->
                                                                    None))
                                                                    | None ->
                                                                    None)
                                                                    | _ ->
                                                                    None)
                                                                    | _ ->
                                                                    None)
                                                                  | _ -> None)
                                                               | _ -> None)
                                                            | _ -> None)
                                                         | _ -> None)
                                                      | _ -> None))
                                              in members f ((Zpos (XI (XO
                                                   x))) :: r'))
                                         | x ->
                                           let rec members n0 b0 =
                                             match n0 with
                                             | O -> None
                                             | S n' ->
                                               (match b0 with
                                                | [] -> None
                                                | z2 :: k ->
                                                  (match z2 with
                                                   | Zpos p8 ->
                                                     (match p8 with
                                                      | XO p9 ->
                                                        (match p9 with
                                                         | XI p10 ->
                                                           (match p10 with
                                                            | XO p11 ->
                                                              (match p11 with
                                                               | XO p12 ->
                                                                 (match p12 with
                                                                  | XO p13 ->
                                                                    (match p13 with
                                                                    | XH ->
                                                                    (match 
                                                                    g_string k with
                                                                    | Some r0 ->
                                                                    (match 
                                                                    skip_ws r0 with
                                                                    | [] ->
                                                                    None
                                                                    | z3 :: r'0 ->
                                                                    (match z3 with
                                                                    | Zpos p14 ->
                                                                    (match p14 with
                                                                    | XO p15 ->
                                                                    (match p15 with
                                                                    | XI p16 ->
                                                                    (match p16 with
                                                                    | XO p17 ->
                                                                    (match p17 with
                                                                    | XI p18 ->
                                                                    (match p18 with
                                                                    | XI p19 ->
                                                                    (match p19 with
                                                                    | XH ->
                                                                    (match 
                                                                    g_value f
                                                                    (skip_ws
                                                                    r'0) with
                                                                    | Some r1 ->
                                                                    (match 
                                                                    skip_ws r1 with
                                                                    | [] ->
                                                                    None
                                                                    | z4 :: r'1 ->
                                                                    (match z4 with
                                                                    | Zpos p20 ->
                                                                    (match p20 with
                                                                    | XI p21 ->
                                                                    (match p21 with
                                                                    | XO p22 ->
                                                                    (match p22 with
                                                                    | XI p23 ->
                                                                    (match p23 with
                                                                    | XI p24 ->
                                                                    (match p24 with
                                                                    | XI p25 ->
                                                                    (match p25 with
                                                                    | XI p26 ->
                                                                    (match p26 with
                                                                    | XH ->
                                                                    Some r'1
                                                                    | _ ->
                                                                    None)
                                                                    | _ ->
                                                                    None)
                                                                    | _ ->
                                                                    None)
                                                                    | _ ->
                                                                    None)
                                                                    | _ ->
                                                                    None)
                                                                    | _ ->
                                                                    None)
                                                                    | XO p21 ->
                                                                    (match p21 with
                                                                    | XO p22 ->
                                                                    (match p22 with
                                                                    | XI p23 ->
                                                                    (match p23 with
                                                                    | XI p24 ->
                                                                    (match p24 with
                                                                    | XO p25 ->
                                                                    (match p25 with
                                                                    | XH ->
                                                                    members
                                                                    n'
                                                                    (skip_ws
                                                                    r'1)
                                                                    | _ ->
                                                                    None)
                                                                    | _ ->
                                                                    None)
                                                                    | _ ->
                                                                    None)
                                                                    | _ ->
                                                                    None)
                                                                    | _ ->
                                                                    None)
                                                                    | XH ->
                                                                    None)
                                                                    | _ ->
                                                                    None))
                                                                    | None ->
                                                                    None)
                                                                    | _ ->
                                                                    None)
                                                                    | _ ->
                                                                    None)
                                                                    | _ ->
                                                                    None)
                                                                    | _ ->
                                                                    None)
                                                                    | _ ->
                                                                    None)
                                                                    | _ ->
                                                                    None)
                                                                    | _ ->
                                                                    None))
                                                                    | None ->
                                                                    None)
                                                                    | _ ->
                                                                    None)
                                                                  | _ -> None)
                                                               | _ -> None)
                                                            | _ -> None)
                                                         | _ -> None)
                                                      | _ -> None)
                                                   | _ -> None))
                                           in members f ((Zpos (XI x)) :: r'))
                                      | x ->
                                        let rec members n0 b0 =
                                          match n0 with
                                          | O -> None
                                          | S n' ->
                                            (match b0 with
                                             | [] -> None
                                             | z2 :: k ->
                                               (match z2 with
                                                | Zpos p7 ->
                                                  (match p7 with
                                                   | XO p8 ->
                                                     (match p8 with
                                                      | XI p9 ->
                                                        (match p9 with
                                                         | XO p10 ->
                                                           (match p10 with
                                                            | XO p11 ->
                                                              (match p11 with
                                                               | XO p12 ->
                                                                 (match p12 with
                                                                  | XH ->
                                                                    (match 
                                                                    g_string k with
                                                                    | Some r0 ->
                                                                    (match 
                                                                    skip_ws r0 with
                                                                    | [] ->
                                                                    None
                                                                    | z3 :: r'0 ->
                                                                    (match z3 with
                                                                    | Zpos p13 ->
                                                                    (match p13 with
                                                                    | XO p14 ->
                                                                    (match p14 with
                                                                    | XI p15 ->
                                                                    (match p15 with
                                                                    | XO p16 ->
                                                                    (match p16 with
                                                                    | XI p17 ->
                                                                    (match p17 with
                                                                    | XI p18 ->
                                                                    (match p18 with
                                                                    | XH ->
                                                                    (match 
                                                                    g_value f
                                                                    (skip_ws
                                                                    r'0) with
                                                                    | Some r1 ->
                                                                    (match 
                                                                    skip_ws r1 with
                                                                    | [] ->
                                                                    None
                                                                    | z4 :: r'1 ->
                                                                    (match z4 with
                                                                    | Zpos p19 ->
                                                                    (match p19 with
                                                                    | XI p20 ->
                                                                    (match p20 with
                                                                    | XO p21 ->
                                                                    (match p21 with
                                                                    | XI p22 ->
                                                                    (match p22 with
                                                                    | XI p23 ->
                                                                    (match p23 with
                                                                    | XI p24 ->
                                                                    (match p24 with
                                                                    | XI p25 ->
                                                                    (match p25 with
                                                                    | XH ->
                                                                    Some r'1
                                                                    | _ ->
                                                                    None)
                                                                    | _ ->
                                                                    None)
                                                                    | _ ->
                                                                    None)
                                                                    | _ ->
                                                                    None)
                                                                    | _ ->
                                                                    None)
                                                                    | _ ->
                                                                    None)
                                                                    | XO p20 ->
                                                                    (match p20 with
                                                                    | XO p21 ->
                                                                    (match p21 with
                                                                    | XI p22 ->
                                                                    (match p22 with
                                                                    | XI p23 ->
                                                                    (match p23 with
                                                                    | XO p24 ->
                                                                    (match p24 with
                                                                    | XH ->
                                                                    members
                                                                    n'
                                                                    (skip_ws
                                                                    r'1)
                                                                    | _ ->
                                                                    None)
                                                                    | _ ->
                                                                    None)
                                                                    | _ ->
                                                                    None)
                                                                    | _ ->
                                                                    None)
                                                                    | _ ->
                                                                    None)
                                                                    | XH ->
                                                                    None)
                                                                    | _ ->
                                                                    None))
                                                                    | None ->
                                                                    None)
                                                                    | _ ->
                                                                    None)
                                                                    | _ ->
                                                                    None)
                                                                    | _ ->
                                                                    None)
                                                                    | _ ->
                                                                    None)
                                                                    | _ ->
                                                                    None)
                                                                    | _ ->
                                                                    None)
                                                                    | _ ->
                                                                    None))
                                                                    | None ->
                                                                    None)
                                                                  | _ -> None)
                                                               | _ -> None)
                                                            | _ -> None)
                                                         | _ -> None)
                                                      | _ -> None)
                                                   | _ -> None)
                                                | _ -> None))
                                        in members f ((Zpos x) :: r'))
                                   | x ->
                                     let rec members n0 b0 =
                                       match n0 with
                                       | O -> None
                                       | S n' ->
                                         (match b0 with
                                          | [] -> None
                                          | z2 :: k ->
                                            (match z2 with
                                             | Zpos p6 ->
                                               (match p6 with
                                                | XO p7 ->
                                                  (match p7 with
                                                   | XI p8 ->
                                                     (match p8 with
                                                      | XO p9 ->
                                                        (match p9 with
                                                         | XO p10 ->
                                                           (match p10 with
                                                            | XO p11 ->
                                                              (match p11 with
                                                               | XH ->
                                                                 (match 
                                                                  g_string k with
                                                                  | Some r0 ->
                                                                    (match 
                                                                    skip_ws r0 with
                                                                    | [] ->
                                                                    None
                                                                    | z3 :: r'0 ->
                                                                    (match z3 with
                                                                    | Zpos p12 ->
                                                                    (match p12 with
                                                                    | XO p13 ->
                                                                    (match p13 with
                                                                    | XI p14 ->
                                                                    (match p14 with
                                                                    | XO p15 ->
                                                                    (match p15 with
                                                                    | XI p16 ->
                                                                    (match p16 with
                                                                    | XI p17 ->
                                                                    (match p17 with
                                                                    | XH ->
                                                                    (match 
                                                                    g_value f
                                                                    (skip_ws
                                                                    r'0) with
                                                                    | Some r1 ->
                                                                    (match 
                                                                    skip_ws r1 with
                                                                    | [] ->
                                                                    None
                                                                    | z4 :: r'1 ->
                                                                    (match z4 with
                                                                    | Zpos p18 ->
                                                                    (match p18 with
                                                                    | XI p19 ->
                                                                    (match p19 with
                                                                    | XO p20 ->
                                                                    (match p20 with
                                                                    | XI p21 ->
                                                                    (match p21 with
                                                                    | XI p22 ->
                                                                    (match p22 with
                                                                    | XI p23 ->
                                                                    (match p23 with
                                                                    | XI p24 ->
                                                                    (match p24 with
                                                                    | XH ->
                                                                    Some r'1
                                                                    | _ ->
                                                                    None)
                                                                    | _ ->
                                                                    None)
                                                                    | _ ->
                                                                    None)
                                                                    | _ ->
                                                                    None)
                                                                    | _ ->
                                                                    None)
                                                                    | _ ->
                                                                    None)
                                                                    | XO p19 ->
                                                                    (match p19 with
                                                                    | XO p20 ->
                                                                    (match p20 with
                                                                    | XI p21 ->
                                                                    (match p21 with
                                                                    | XI p22 ->
                                                                    (match p22 with
                                                                    | XO p23 ->
                                                                    (match p23 with
                                                                    | XH ->
                                                                    members
                                                                    n'
                                                                    (skip_ws
                                                                    r'1)
                                                                    | _ ->
                                                                    None)
                                                                    | _ ->
                                                                    None)
                                                                    | _ ->
                                                                    None)
                                                                    | _ ->
                                                                    None)
                                                                    | _ ->
                                                                    None)
                                                                    | XH ->
                                                                    None)
                                                                    | _ ->
                                                                    None))
                                                                    | None ->
                                                                    None)
                                                                    | _ ->
                                                                    None)
                                                                    | _ ->
                                                                    None)
                                                                    | _ ->
                                                                    None)
                                                                    | _ ->
                                                                    None)
                                                                    | _ ->
                                                                    None)
                                                                    | _ ->
                                                                    None)
                                                                    | _ ->
                                                                    None))
                                                                  | None ->
                                                                    None)
                                                               | _ -> None)
                                                            | _ -> None)
                                                         | _ -> None)
                                                      | _ -> None)
                                                   | _ -> None)
                                                | _ -> None)
                                             | _ -> None))
                                     in members f (x :: r')))
                             | _ -> g_number b)
                          | XO p5 ->
                            (match p5 with
                             | XH ->
                               (match skip_ws r with
                                | [] ->
                                  let rec elems n0 b0 =
                                    match n0 with
                                    | O -> None
                                    | S n' ->
                                      (match g_value f b0 with
                                       | Some r0 ->
                                         (match skip_ws r0 with
                                          | [] -> None
                                          | z1 :: r' ->
                                            (match z1 with
                                             | Zpos p6 ->
                                               (match p6 with
                                                | XI p7 ->
                                                  (match p7 with
                                                   | XO p8 ->
                                                     (match p8 with
                                                      | XI p9 ->
                                                        (match p9 with
                                                         | XI p10 ->
                                                           (match p10 with
                                                            | XI p11 ->
                                                              (match p11 with
                                                               | XO p12 ->
                                                                 (match p12 with
                                                                  | XH ->
                                                                    Some r'
                                                                  | _ -> None)
                                                               | _ -> None)
                                                            | _ -> None)
                                                         | _ -> None)
                                                      | _ -> None)
                                                   | _ -> None)
                                                | XO p7 ->
                                                  (match p7 with
                                                   | XO p8 ->
                                                     (match p8 with
                                                      | XI p9 ->
                                                        (match p9 with
                                                         | XI p10 ->
                                                           (match p10 with
                                                            | XO p11 ->
                                                              (match p11 with
                                                               | XH ->
                                                                 elems n'
                                                                   (skip_ws
                                                                    r')
                                                               | _ -> None)
                                                            | _ -> None)
                                                         | _ -> None)
                                                      | _ -> None)
                                                   | _ -> None)
                                                | XH -> None)
                                             | _ -> None))
                                       | None -> None)
                                  in elems f []
                                | z1 :: r' ->
                                  (match z1 with
                                   | Zpos p6 ->
                                     (match p6 with
                                      | XI p7 ->
                                        (match p7 with
                                         | XO p8 ->
                                           (match p8 with
                                            | XI p9 ->
                                              (match p9 with
                                               | XI p10 ->
                                                 (match p10 with
                                                  | XI p11 ->
                                                    (match p11 with
                                                     | XO p12 ->
                                                       (match p12 with
                                                        | XH -> Some r'
                                                        | x ->
                                                          let rec elems n0 b0 =
                                                            match n0 with
                                                            | O -> None
                                                            | S n' ->
                                                              (match 
                                                               g_value f b0 with
                                                               | Some r0 ->
                                                                 (match 
                                                                  skip_ws r0 with
                                                                  | [] -> None
                                                                  | z2 :: r'0 ->
                                                                    (match z2 with
                                                                    | Zpos p13 ->
                                                                    (match p13 with
                                                                    | XI p14 ->
                                                                    (match p14 with
                                                                    | XO p15 ->
                                                                    (match p15 with
                                                                    | XI p16 ->
                                                                    (match p16 with
                                                                    | XI p17 ->
                                                                    (match p17 with
                                                                    | XI p18 ->
                                                                    (match p18 with
                                                                    | XO p19 ->
                                                                    (match p19 with
                                                                    | XH ->
                                                                    Some r'0
                                                                    | _ ->
                                                                    None)
                                                                    | _ ->
                                                                    None)
                                                                    | _ ->
                                                                    None)
                                                                    | _ ->
                                                                    None)
                                                                    | _ ->
                                                                    None)
                                                                    | _ ->
                                                                    None)
                                                                    | XO p14 ->
                                                                    (match p14 with
                                                                    | XO p15 ->
                                                                    (match p15 with
                                                                    | XI p16 ->
                                                                    (match p16 with
                                                                    | XI p17 ->
                                                                    (match p17 with
                                                                    | XO p18 ->
                                                                    (match p18 with
                                                                    | XH ->
                                                                    elems n'
                                                                    (skip_ws
                                                                    r'0)
                                                                    | _ ->
                                                                    None)
                                                                    | _ ->
                                                                    None)
                                                                    | _ ->
                                                                    None)
                                                                    | _ ->
                                                                    None)
                                                                    | _ ->
                                                                    None)
                                                                    | XH ->
                                                                    None)
                                                                    | _ ->
                                                                    None))
                                                               | None -> None)
                                                          in elems f ((Zpos
                                                               (XI (XO (XI
                                                               (XI (XI (XO
                                                               x))))))) :: r'))
                                                     | x ->
                                                       let rec elems n0 b0 =
                                                         match n0 with
                                                         | O -> None
                                                         | S n' ->
                                                           (match g_value f b0 with
                                                            | Some r0 ->
                                                              (match 
                                                               skip_ws r0 with
                                                               | [] -> None
                                                               | z2 :: r'0 ->
                                                                 (match z2 with
                                                                  | Zpos p12 ->
                                                                    (match p12 with
                                                                    | XI p13 ->
                                                                    (match p13 with
                                                                    | XO p14 ->
                                                                    (match p14 with
                                                                    | XI p15 ->
                                                                    (match p15 with
                                                                    | XI p16 ->
                                                                    (match p16 with
                                                                    | XI p17 ->
                                                                    (match p17 with
                                                                    | XO p18 ->
                                                                    (match p18 with
                                                                    | XH ->
                                                                    Some r'0
                                                                    | _ ->
                                                                    None)
                                                                    | _ ->
                                                                    None)
                                                                    | _ ->
                                                                    None)
                                                                    | _ ->
                                                                    None)
                                                                    | _ ->
                                                                    None)
                                                                    | _ ->
                                                                    None)
                                                                    | XO p13 ->
                                                                    (match p13 with
                                                                    | XO p14 ->
                                                                    (match p14 with
                                                                    | XI p15 ->
                                                                    (match p15 with
                                                                    | XI p16 ->
                                                                    (match p16 with
                                                                    | XO p17 ->
                                                                    (match p17 with
                                                                    | XH ->
                                                                    elems n'
                                                                    (skip_ws
                                                                    r'0)
                                                                    | _ ->
                                                                    None)
                                                                    | _ ->
                                                                    None)
                                                                    | _ ->
                                                                    None)
                                                                    | _ ->
                                                                    None)
                                                                    | _ ->
                                                                    None)
                                                                    | XH ->
                                                                    None)
                                                                  | _ -> None))
                                                            | None -> None)
                                                       in elems f ((Zpos (XI
                                                            (XO (XI (XI (XI
                                                            x)))))) :: r'))
                                                  | x ->
                                                    let rec elems n0 b0 =
                                                      match n0 with
                                                      | O -> None
                                                      | S n' ->
                                                        (match g_value f b0 with
                                                         | Some r0 ->
                                                           (match skip_ws r0 with
                                                            | [] -> None
                                                            | z2 :: r'0 ->
                                                              (match z2 with
                                                               | Zpos p11 ->
                                                                 (match p11 with
                                                                  | XI p12 ->
                                                                    (match p12 with
                                                                    | XO p13 ->
                                                                    (match p13 with
                                                                    | XI p14 ->
                                                                    (match p14 with
                                                                    | XI p15 ->
                                                                    (match p15 with
                                                                    | XI p16 ->
                                                                    (match p16 with
                                                                    | XO p17 ->
                                                                    (match p17 with
                                                                    | XH ->
                                                                    Some r'0
                                                                    | _ ->
                                                                    None)
                                                                    | _ ->
                                                                    None)
                                                                    | _ ->
                                                                    None)
                                                                    | _ ->
                                                                    None)
                                                                    | _ ->
                                                                    None)
                                                                    | _ ->
                                                                    None)
                                                                  | XO p12 ->
                                                                    (match p12 with
                                                                    | XO p13 ->
                                                                    (match p13 with
                                                                    | XI p14 ->
                                                                    (match p14 with
                                                                    | XI p15 ->
                                                                    (match p15 with
                                                                    | XO p16 ->
                                                                    (match p16 with
                                                                    | XH ->
                                                                    elems n'
                                                                    (skip_ws
                                                                    r'0)
                                                                    | _ ->
                                                                    None)
                                                                    | _ ->
                                                                    None)
                                                                    | _ ->
                                                                    None)
                                                                    | _ ->
                                                                    None)
                                                                    | _ ->
                                                                    None)
                                                                  | XH -> None)
                                                               | _ -> None))
                                                         | None -> None)
                                                    in elems f ((Zpos (XI (XO
                                                         (XI (XI x))))) :: r'))
                                               | x ->
                                                 let rec elems n0 b0 =
                                                   match n0 with
                                                   | O -> None
                                                   | S n' ->
                                                     (match g_value f b0 with
                                                      | Some r0 ->
                                                        (match skip_ws r0 with
                                                         | [] -> None
                                                         | z2 :: r'0 ->
                                                           (match z2 with
                                                            | Zpos p10 ->
                                                              (match p10 with
                                                               | XI p11 ->
                                                                 (match p11 with
                                                                  | XO p12 ->
                                                                    (match p12 with
                                                                    | XI p13 ->
                                                                    (match p13 with
                                                                    | XI p14 ->
                                                                    (match p14 with
                                                                    | XI p15 ->
                                                                    (match p15 with
                                                                    | XO p16 ->
                                                                    (match p16 with
                                                                    | XH ->
                                                                    Some r'0
                                                                    | _ ->
                                                                    None)
                                                                    | _ ->
                                                                    None)
                                                                    | _ ->
                                                                    None)
                                                                    | _ ->
                                                                    None)
                                                                    | _ ->
                                                                    None)
                                                                  | _ -> None)
                                                               | XO p11 ->
                                                                 (match p11 with
                                                                  | XO p12 ->
                                                                    (match p12 with
                                                                    | XI p13 ->
                                                                    (match p13 with
                                                                    | XI p14 ->
                                                                    (match p14 with
                                                                    | XO p15 ->
                                                                    (match p15 with
                                                                    | XH ->
                                                                    elems n'
                                                                    (skip_ws
                                                                    r'0)
                                                                    | _ ->
                                                                    None)
                                                                    | _ ->
                                                                    None)
                                                                    | _ ->
                                                                    None)
                                                                    | _ ->
                                                                    None)
                                                                  | _ -> None)
                                                               | XH -> None)
                                                            | _ -> None))
                                                      | None -> None)
                                                 in elems f ((Zpos (XI (XO
                                                      (XI x)))) :: r'))
                                            | x ->
                                              let rec elems n0 b0 =
                                                match n0 with
                                                | O -> None
                                                | S n' ->
                                                  (match g_value f b0 with
                                                   | Some r0 ->
                                                     (match skip_ws r0 with
                                                      | [] -> None
                                                      | z2 :: r'0 ->
                                                        (match z2 with
                                                         | Zpos p9 ->
                                                           (match p9 with
                                                            | XI p10 ->
                                                              (match p10 with
                                                               | XO p11 ->
                                                                 (match p11 with
                                                                  | XI p12 ->
                                                                    (match p12 with
                                                                    | XI p13 ->
                                                                    (match p13 with
                                                                    | XI p14 ->
                                                                    (match p14 with
                                                                    | XO p15 ->
                                                                    (match p15 with
                                                                    | XH ->
                                                                    Some r'0
                                                                    | _ ->
                                                                    None)
                                                                    | _ ->
                                                                    None)
                                                                    | _ ->
                                                                    None)
                                                                    | _ ->
                                                                    None)
                                                                  | _ -> None)
                                                               | _ -> None)
                                                            | XO p10 ->
                                                              (match p10 with
                                                               | XO p11 ->
                                                                 (match p11 with
                                                                  | XI p12 ->
                                                                    (match p12 with
                                                                    | XI p13 ->
                                                                    (match p13 with
                                                                    | XO p14 ->
                                                                    (match p14 with
                                                                    | XH ->
                                                                    elems n'
                                                                    (skip_ws
                                                                    r'0)
                                                                    | _ ->
                                                                    None)
                                                                    | _ ->
                                                                    None)
                                                                    | _ ->
                                                                    None)
                                                                  | _ -> None)
                                                               | _ -> None)
                                                            | XH -> None)
                                                         | _ -> None))
                                                   | None -> None)
                                              in elems f ((Zpos (XI (XO
                                                   x))) :: r'))
                                         | x ->
                                           let rec elems n0 b0 =
                                             match n0 with
                                             | O -> None
                                             | S n' ->
                                               (match g_value f b0 with
                                                | Some r0 ->
                                                  (match skip_ws r0 with
                                                   | [] -> None
                                                   | z2 :: r'0 ->
                                                     (match z2 with
                                                      | Zpos p8 ->
                                                        (match p8 with
                                                         | XI p9 ->
                                                           (match p9 with
                                                            | XO p10 ->
                                                              (match p10 with
                                                               | XI p11 ->
                                                                 (match p11 with
                                                                  | XI p12 ->
                                                                    (match p12 with
                                                                    | XI p13 ->
                                                                    (match p13 with
                                                                    | XO p14 ->
                                                                    (match p14 with
                                                                    | XH ->
                                                                    Some r'0
                                                                    | _ ->
                                                                    None)
                                                                    | _ ->
                                                                    None)
                                                                    | _ ->
                                                                    None)
                                                                  | _ -> None)
                                                               | _ -> None)
                                                            | _ -> None)
                                                         | XO p9 ->
                                                           (match p9 with
                                                            | XO p10 ->
                                                              (match p10 with
                                                               | XI p11 ->
                                                                 (match p11 with
                                                                  | XI p12 ->
                                                                    (match p12 with
                                                                    | XO p13 ->
                                                                    (match p13 with
                                                                    | XH ->
                                                                    elems n'
                                                                    (skip_ws
                                                                    r'0)
                                                                    | _ ->
                                                                    None)
                                                                    | _ ->
                                                                    None)
                                                                  | _ -> None)
                                                               | _ -> None)
                                                            | _ -> None)
                                                         | XH -> None)
                                                      | _ -> None))
                                                | None -> None)
                                           in elems f ((Zpos (XI x)) :: r'))
                                      | x ->
                                        let rec elems n0 b0 =
                                          match n0 with
                                          | O -> None
                                          | S n' ->
                                            (match g_value f b0 with
                                             | Some r0 ->
                                               (match skip_ws r0 with
                                                | [] -> None
                                                | z2 :: r'0 ->
                                                  (match z2 with
                                                   | Zpos p7 ->
                                                     (match p7 with
                                                      | XI p8 ->
                                                        (match p8 with
                                                         | XO p9 ->
                                                           (match p9 with
                                                            | XI p10 ->
                                                              (match p10 with
                                                               | XI p11 ->
                                                                 (match p11 with
                                                                  | XI p12 ->
                                                                    (match p12 with
                                                                    | XO p13 ->
                                                                    (match p13 with
                                                                    | XH ->
                                                                    Some r'0
                                                                    | _ ->
                                                                    None)
                                                                    | _ ->
                                                                    None)
                                                                  | _ -> None)
                                                               | _ -> None)
                                                            | _ -> None)
                                                         | _ -> None)
                                                      | XO p8 ->
                                                        (match p8 with
                                                         | XO p9 ->
                                                           (match p9 with
                                                            | XI p10 ->
                                                              (match p10 with
                                                               | XI p11 ->
                                                                 (match p11 with
                                                                  | XO p12 ->
                                                                    (match p12 with
                                                                    | XH ->
                                                                    elems n'
                                                                    (skip_ws
                                                                    r'0)
                                                                    | _ ->
                                                                    None)
                                                                  | _ -> None)
                                                               | _ -> None)
                                                            | _ -> None)
                                                         | _ -> None)
                                                      | XH -> None)
                                                   | _ -> None))
                                             | None -> None)
                                        in elems f ((Zpos x) :: r'))
                                   | x ->
                                     let rec elems n0 b0 =
                                       match n0 with
                                       | O -> None
                                       | S n' ->
                                         (match g_value f b0 with
                                          | Some r0 ->
                                            (match skip_ws r0 with
                                             | [] -> None
                                             | z2 :: r'0 ->
                                               (match z2 with
                                                | Zpos p6 ->
                                                  (match p6 with
                                                   | XI p7 ->
                                                     (match p7 with
                                                      | XO p8 ->
                                                        (match p8 with
                                                         | XI p9 ->
                                                           (match p9 with
                                                            | XI p10 ->
                                                              (match p10 with
                                                               | XI p11 ->
                                                                 (match p11 with
                                                                  | XO p12 ->
                                                                    (match p12 with
                                                                    | XH ->
                                                                    Some r'0
                                                                    | _ ->
                                                                    None)
                                                                  | _ -> None)
                                                               | _ -> None)
                                                            | _ -> None)
                                                         | _ -> None)
                                                      | _ -> None)
                                                   | XO p7 ->
                                                     (match p7 with
                                                      | XO p8 ->
                                                        (match p8 with
                                                         | XI p9 ->
                                                           (match p9 with
                                                            | XI p10 ->
                                                              (match p10 with
                                                               | XO p11 ->
                                                                 (match p11 with
                                                                  | XH ->
                                                                    elems n'
                                                                    (skip_ws
                                                                    r'0)
                                                                  | _ -> None)
                                                               | _ -> None)
                                                            | _ -> None)
                                                         | _ -> None)
                                                      | _ -> None)
                                                   | XH -> None)
                                                | _ -> None))
                                          | None -> None)
                                     in elems f (x :: r')))
                             | _ -> g_number b)
                          | XH -> g_number b)
                       | _ -> g_number b)
                    | _ -> g_number b)
                 | _ -> g_number b)
              | _ -> g_number b)
           | XO p0 ->
             (match p0 with
              | XI p1 ->
                (match p1 with
                 | XI p2 ->
                   (match p2 with
                    | XI p3 ->
                      (match p3 with
                       | XO p4 ->
                         (match p4 with
                          | XI p5 ->
                            (match p5 with
                             | XH ->
                               (match r with
                                | [] -> g_number b
                                | z1 :: l ->
                                  (match z1 with
                                   | Zpos p6 ->
                                     (match p6 with
                                      | XI p7 ->
                                        (match p7 with
                                         | XO p8 ->
                                           (match p8 with
                                            | XI p9 ->
                                              (match p9 with
                                               | XO p10 ->
                                                 (match p10 with
                                                  | XI p11 ->
                                                    (match p11 with
                                                     | XI p12 ->
                                                       (match p12 with
                                                        | XH ->
                                                          (match l with
                                                           | [] -> g_number b
                                                           | z2 :: l0 ->
                                                             (match z2 with
                                                              | Zpos p13 ->
                                                                (match p13 with
                                                                 | XO p14 ->
                                                                   (match p14 with
                                                                    | XO p15 ->
                                                                    (match p15 with
                                                                    | XI p16 ->
                                                                    (match p16 with
                                                                    | XI p17 ->
                                                                    (match p17 with
                                                                    | XO p18 ->
                                                                    (match p18 with
                                                                    | XI p19 ->
                                                                    (match p19 with
                                                                    | XH ->
                                                                    (match l0 with
                                                                    | [] ->
                                                                    g_number b
                                                                    | z3 :: r0 ->
                                                                    (match z3 with
                                                                    | Zpos p20 ->
                                                                    (match p20 with
                                                                    | XO p21 ->
                                                                    (match p21 with
                                                                    | XO p22 ->
                                                                    (match p22 with
                                                                    | XI p23 ->
                                                                    (match p23 with
                                                                    | XI p24 ->
                                                                    (match p24 with
                                                                    | XO p25 ->
                                                                    (match p25 with
                                                                    | XI p26 ->
                                                                    (match p26 with
                                                                    | XH ->
                                                                    Some r0
                                                                    | _ ->
                                                                    g_number b)
                                                                    | _ ->
                                                                    g_number b)
                                                                    | _ ->
                                                                    g_number b)
                                                                    | _ ->
                                                                    g_number b)
                                                                    | _ ->
                                                                    g_number b)
                                                                    | _ ->
                                                                    g_number b)
                                                                    | _ ->
                                                                    g_number b)
                                                                    | _ ->
                                                                    g_number b))
                                                                    | _ ->
                                                                    g_number b)
                                                                    | _ ->
                                                                    g_number b)
                                                                    | _ ->
                                                                    g_number b)
                                                                    | _ ->
                                                                    g_number b)
                                                                    | _ ->
                                                                    g_number b)
                                                                    | _ ->
                                                                    g_number b)
                                                                 | _ ->
                                                                   g_number b)
                                                              | _ ->
                                                                g_number b))
                                                        | _ -> g_number b)
                                                     | _ -> g_number b)
                                                  | _ -> g_number b)
                                               | _ -> g_number b)
                                            | _ -> g_number b)
                                         | _ -> g_number b)
                                      | _ -> g_number b)
                                   | _ -> g_number b))
                             | _ -> g_number b)
                          | _ -> g_number b)
                       | _ -> g_number b)
                    | XO p3 ->
                      (match p3 with
                       | XO p4 ->
                         (match p4 with
                          | XI p5 ->
                            (match p5 with
                             | XH ->
                               (match r with
                                | [] -> g_number b
                                | z1 :: l ->
                                  (match z1 with
                                   | Zpos p6 ->
                                     (match p6 with
                                      | XI p7 ->
                                        (match p7 with
                                         | XO p8 ->
                                           (match p8 with
                                            | XO p9 ->
                                              (match p9 with
                                               | XO p10 ->
                                                 (match p10 with
                                                  | XO p11 ->
                                                    (match p11 with
                                                     | XI p12 ->
                                                       (match p12 with
                                                        | XH ->
                                                          (match l with
                                                           | [] -> g_number b
                                                           | z2 :: l0 ->
                                                             (match z2 with
                                                              | Zpos p13 ->
                                                                (match p13 with
                                                                 | XO p14 ->
                                                                   (match p14 with
                                                                    | XO p15 ->
                                                                    (match p15 with
                                                                    | XI p16 ->
                                                                    (match p16 with
                                                                    | XI p17 ->
                                                                    (match p17 with
                                                                    | XO p18 ->
                                                                    (match p18 with
                                                                    | XI p19 ->
                                                                    (match p19 with
                                                                    | XH ->
                                                                    (match l0 with
                                                                    | [] ->
                                                                    g_number b
                                                                    | z3 :: l1 ->
                                                                    (match z3 with
                                                                    | Zpos p20 ->
                                                                    (match p20 with
                                                                    | XI p21 ->
                                                                    (match p21 with
                                                                    | XI p22 ->
                                                                    (match p22 with
                                                                    | XO p23 ->
                                                                    (match p23 with
                                                                    | XO p24 ->
                                                                    (match p24 with
                                                                    | XI p25 ->
                                                                    (match p25 with
                                                                    | XI p26 ->
                                                                    (match p26 with
                                                                    | XH ->
                                                                    (match l1 with
                                                                    | [] ->
                                                                    g_number b
                                                                    | z4 :: r0 ->
                                                                    (match z4 with
                                                                    | Zpos p27 ->
                                                                    (match p27 with
                                                                    | XI p28 ->
                                                                    (match p28 with
                                                                    | XO p29 ->
                                                                    (match p29 with
                                                                    | XI p30 ->
                                                                    (match p30 with
                                                                    | XO p31 ->
                                                                    (match p31 with
                                                                    | XO p32 ->
                                                                    (match p32 with
                                                                    | XI p33 ->
                                                                    (match p33 with
                                                                    | XH ->
                                                                    Some r0
                                                                    | _ ->
                                                                    g_number b)
                                                                    | _ ->
                                                                    g_number b)
                                                                    | _ ->
                                                                    g_number b)
                                                                    | _ ->
                                                                    g_number b)
                                                                    | _ ->
                                                                    g_number b)
                                                                    | _ ->
                                                                    g_number b)
                                                                    | _ ->
                                                                    g_number b)
                                                                    | _ ->
                                                                    g_number b))
                                                                    | _ ->
                                                                    g_number b)
                                                                    | _ ->
                                                                    g_number b)
                                                                    | _ ->
                                                                    g_number b)
                                                                    | _ ->
                                                                    g_number b)
                                                                    | _ ->
                                                                    g_number b)
                                                                    | _ ->
                                                                    g_number b)
                                                                    | _ ->
                                                                    g_number b)
                                                                    | _ ->
                                                                    g_number b))
                                                                    | _ ->
                                                                    g_number b)
                                                                    | _ ->
                                                                    g_number b)
                                                                    | _ ->
                                                                    g_number b)
                                                                    | _ ->
                                                                    g_number b)
                                                                    | _ ->
                                                                    g_number b)
                                                                    | _ ->
                                                                    g_number b)
                                                                 | _ ->
                                                                   g_number b)
                                                              | _ ->
                                                                g_number b))
                                                        | _ -> g_number b)
                                                     | _ -> g_number b)
                                                  | _ -> g_number b)
                                               | _ -> g_number b)
                                            | _ -> g_number b)
                                         | _ -> g_number b)
                                      | _ -> g_number b)
                                   | _ -> g_number b))
                             | _ -> g_number b)
                          | _ -> g_number b)
                       | _ -> g_number b)
                    | XH -> g_number b)
                 | XO p2 ->
                   (match p2 with
                    | XO p3 ->
                      (match p3 with
                       | XO p4 ->
                         (match p4 with
                          | XH -> g_string r
                          | _ -> g_number b)
                       | _ -> g_number b)
                    | _ -> g_number b)
                 | XH -> g_number b)
              | XO p1 ->
                (match p1 with
                 | XI p2 ->
                   (match p2 with
                    | XO p3 ->
                      (match p3 with
                       | XI p4 ->
                         (match p4 with
                          | XI p5 ->
                            (match p5 with
                             | XH ->
                               (match r with
                                | [] -> g_number b
                                | z1 :: l ->
                                  (match z1 with
                                   | Zpos p6 ->
                                     (match p6 with
                                      | XO p7 ->
                                        (match p7 with
                                         | XI p8 ->
                                           (match p8 with
                                            | XO p9 ->
                                              (match p9 with
                                               | XO p10 ->
                                                 (match p10 with
                                                  | XI p11 ->
                                                    (match p11 with
                                                     | XI p12 ->
                                                       (match p12 with
                                                        | XH ->
                                                          (match l with
                                                           | [] -> g_number b
                                                           | z2 :: l0 ->
                                                             (match z2 with
                                                              | Zpos p13 ->
                                                                (match p13 with
                                                                 | XI p14 ->
                                                                   (match p14 with
                                                                    | XO p15 ->
                                                                    (match p15 with
                                                                    | XI p16 ->
                                                                    (match p16 with
                                                                    | XO p17 ->
                                                                    (match p17 with
                                                                    | XI p18 ->
                                                                    (match p18 with
                                                                    | XI p19 ->
                                                                    (match p19 with
                                                                    | XH ->
                                                                    (match l0 with
                                                                    | [] ->
                                                                    g_number b
                                                                    | z3 :: r0 ->
                                                                    (match z3 with
                                                                    | Zpos p20 ->
                                                                    (match p20 with
                                                                    | XI p21 ->
                                                                    (match p21 with
                                                                    | XO p22 ->
                                                                    (match p22 with
                                                                    | XI p23 ->
                                                                    (match p23 with
                                                                    | XO p24 ->
                                                                    (match p24 with
                                                                    | XO p25 ->
                                                                    (match p25 with
                                                                    | XI p26 ->
                                                                    (match p26 with
                                                                    | XH ->
                                                                    Some r0
                                                                    | _ ->
                                                                    g_number b)
                                                                    | _ ->
                                                                    g_number b)
                                                                    | _ ->
                                                                    g_number b)
                                                                    | _ ->
                                                                    g_number b)
                                                                    | _ ->
                                                                    g_number b)
                                                                    | _ ->
                                                                    g_number b)
                                                                    | _ ->
                                                                    g_number b)
                                                                    | _ ->
                                                                    g_number b))
                                                                    | _ ->
                                                                    g_number b)
                                                                    | _ ->
                                                                    g_number b)
                                                                    | _ ->
                                                                    g_number b)
                                                                    | _ ->
                                                                    g_number b)
                                                                    | _ ->
                                                                    g_number b)
                                                                    | _ ->
                                                                    g_number b)
                                                                 | _ ->
                                                                   g_number b)
                                                              | _ ->
                                                                g_number b))
                                                        | _ -> g_number b)
                                                     | _ -> g_number b)
                                                  | _ -> g_number b)
                                               | _ -> g_number b)
                                            | _ -> g_number b)
                                         | _ -> g_number b)
                                      | _ -> g_number b)
                                   | _ -> g_number b))
                             | _ -> g_number b)
                          | _ -> g_number b)
                       | _ -> g_number b)
                    | _ -> g_number b)
                 | _ -> g_number b)
              | XH -> g_number b)
           | XH -> g_number b)
        | _ -> g_number b))

(** val g_valid : bytes -> bool **)

let g_valid b =
  match g_value (S (length b)) (skip_ws b) with
  | Some r -> (match skip_ws r with
               | [] -> true
               | _ :: _ -> false)
  | None -> false

(** val max_depth_from : z -> z -> bool -> bool -> bytes -> z **)

let rec max_depth_from cur mx instr esc = function
| [] -> mx
| c :: r ->
  if instr
  then if esc
       then max_depth_from cur mx true false r
       else if Z.eqb c (Zpos (XO (XO (XI (XI (XI (XO XH)))))))
            then max_depth_from cur mx true true r
            else if Z.eqb c (Zpos (XO (XI (XO (XO (XO XH))))))
                 then max_depth_from cur mx false false r
                 else max_depth_from cur mx true false r
  else if Z.eqb c (Zpos (XO (XI (XO (XO (XO XH))))))
       then max_depth_from cur mx true false r
       else if (||) (Z.eqb c (Zpos (XI (XI (XO (XI (XI (XO XH))))))))
                 (Z.eqb c (Zpos (XI (XI (XO (XI (XI (XI XH))))))))
            then max_depth_from (Z.add cur (Zpos XH))
                   (Z.max mx (Z.add cur (Zpos XH))) false false r
            else if (||) (Z.eqb c (Zpos (XI (XO (XI (XI (XI (XO XH))))))))
                      (Z.eqb c (Zpos (XI (XO (XI (XI (XI (XI XH))))))))
                 then max_depth_from (Z.sub cur (Zpos XH)) mx false false r
                 else max_depth_from cur mx false false r

(** val max_depth : bytes -> z **)

let max_depth b =
  max_depth_from Z0 Z0 false false b

(** val std_valid : bytes -> bool **)

let std_valid b =
  (&&) (g_valid b)
    (Z.leb (max_depth b) (Zpos (XO (XO (XO (XO (XI (XO (XO (XO (XI (XI (XI
      (XO (XO XH)))))))))))))))

(** val needs_escape_json : bool -> z -> bool **)

let needs_escape_json html c =
  (||)
    ((||)
      ((||)
        ((||) (Z.ltb c (Zpos (XO (XO (XO (XO (XO XH)))))))
          (Z.ltb (Zpos (XI (XI (XI (XI (XI (XI XH))))))) c))
        (Z.eqb c (Zpos (XO (XI (XO (XO (XO XH))))))))
      (Z.eqb c (Zpos (XO (XO (XI (XI (XI (XO XH)))))))))
    ((&&) html
      ((||)
        ((||) (Z.eqb c (Zpos (XO (XO (XI (XI (XI XH)))))))
          (Z.eqb c (Zpos (XO (XI (XI (XI (XI XH))))))))
        (Z.eqb c (Zpos (XO (XI (XI (XO (XO XH)))))))))

(** val first_index : (z -> bool) -> z -> bytes -> z **)

let rec first_index p i = function
| [] -> Zneg XH
| c :: r -> if p c then i else first_index p (Z.add i (Zpos XH)) r

type terr =
| EEOF
| EUnexpectedEOF
| EOther
| EMissing
| EMismatch

type 'a tres =
| TOk of 'a
| TErr of terr
| TPanic
| TOutOfFuel

(** val tbind : 'a1 tres -> ('a1 -> 'a2 tres) -> 'a2 tres **)

let tbind r f =
  match r with
  | TOk a -> f a
  | TErr e -> TErr e
  | TPanic -> TPanic
  | TOutOfFuel -> TOutOfFuel

(** val dont_expect_eof : 'a1 tres -> 'a1 tres **)

let dont_expect_eof r = match r with
| TErr e -> (match e with
             | EEOF -> TErr EUnexpectedEOF
             | _ -> r)
| _ -> r

type tty =
| ThBool
| ThI8
| ThI16
| ThI32
| ThI64
| ThF64
| ThStr
| ThBytes
| ThList of tty
| ThSet of tty
| ThMap of tty * tty
| ThStruct of tfield list
| ThPtr of tty
and tfield =
| TField of z * z * tty

type tval =
| TvBool of bool
| TvInt of z
| TvBytes of bool * bytes
| TvList of bool * tval list
| TvSet of bool * tval list
| TvMap of bool * (tval * tval) list
| TvStruct of tval list
| TvPtr of tval option

type proto =
| PBinary
| PCompact

(** val f_enum : z **)

let f_enum =
  Zpos XH

(** val f_required : z **)

let f_required =
  Zpos (XO (XO XH))

(** val f_optional : z **)

let f_optional =
  Zpos (XO (XO (XO XH)))

(** val f_strict : z **)

let f_strict =
  Zpos (XO (XO (XO (XO XH))))

(** val has_flag0 : z -> z -> bool **)

let has_flag0 f x =
  Z.eqb (Z.coq_land f x) x

(** val c_STOP : z **)

let c_STOP =
  Z0

(** val c_TRUE : z **)

let c_TRUE =
  Zpos XH

(** val c_BOOL : z **)

let c_BOOL =
  Zpos (XO XH)

(** val c_I8 : z **)

let c_I8 =
  Zpos (XI XH)

(** val c_I16 : z **)

let c_I16 =
  Zpos (XO (XO XH))

(** val c_I32 : z **)

let c_I32 =
  Zpos (XI (XO XH))

(** val c_I64 : z **)

let c_I64 =
  Zpos (XO (XI XH))

(** val c_DOUBLE : z **)

let c_DOUBLE =
  Zpos (XI (XI XH))

(** val c_BINARY : z **)

let c_BINARY =
  Zpos (XO (XO (XO XH)))

(** val c_LIST : z **)

let c_LIST =
  Zpos (XI (XO (XO XH)))

(** val c_SET : z **)

let c_SET =
  Zpos (XO (XI (XO XH)))

(** val c_MAP : z **)

let c_MAP =
  Zpos (XI (XI (XO XH)))

(** val c_STRUCT : z **)

let c_STRUCT =
  Zpos (XO (XO (XI XH)))

(** val type_of : tty -> z **)

let rec type_of = function
| ThBool -> c_BOOL
| ThI8 -> c_I8
| ThI16 -> c_I16
| ThI32 -> c_I32
| ThI64 -> c_I64
| ThF64 -> c_DOUBLE
| ThList _ -> c_LIST
| ThSet _ -> c_SET
| ThMap (_, _) -> c_MAP
| ThStruct _ -> c_STRUCT
| ThPtr t' -> type_of t'
| _ -> c_BINARY

(** val fld_id : tfield -> z **)

let fld_id = function
| TField (i, _, _) -> i

(** val fld_flags : tfield -> z **)

let fld_flags = function
| TField (_, fl, _) -> fl

(** val fld_ty : tfield -> tty **)

let fld_ty = function
| TField (_, _, t) -> t

(** val be_bytes : nat -> z -> bytes **)

let rec be_bytes n0 v =
  match n0 with
  | O -> []
  | S n' ->
    (Z.modulo
      (Z.div v
        (Z.pow (Zpos (XO (XO (XO (XO (XO (XO (XO (XO XH)))))))))
          (Z.of_nat n'))) (Zpos (XO (XO (XO (XO (XO (XO (XO (XO XH)))))))))) :: 
      (be_bytes n' v)

(** val uvarint_fuel : nat -> z -> bytes **)

let rec uvarint_fuel fuel v =
  match fuel with
  | O -> []
  | S f ->
    if Z.ltb v (Zpos (XO (XO (XO (XO (XO (XO (XO XH))))))))
    then v :: []
    else (Z.add (Z.modulo v (Zpos (XO (XO (XO (XO (XO (XO (XO XH)))))))))
           (Zpos (XO (XO (XO (XO (XO (XO (XO XH))))))))) :: (uvarint_fuel f
                                                              (Z.div v (Zpos
                                                                (XO (XO (XO
                                                                (XO (XO (XO
                                                                (XO
                                                                XH))))))))))

(** val uvarint : z -> bytes **)

let uvarint v =
  uvarint_fuel (S (S (S (S (S (S (S (S (S (S O)))))))))) (w64 v)

(** val zz64 : z -> z **)

let zz64 v =
  if Z.leb Z0 v
  then Z.mul (Zpos (XO XH)) v
  else Z.sub (Z.mul (Zneg (XO XH)) v) (Zpos XH)

(** val varint : z -> bytes **)

let varint v =
  uvarint (zz64 v)

(** val w_i16 : proto -> z -> bytes **)

let w_i16 p v =
  match p with
  | PBinary -> be_bytes (S (S O)) (w16 v)
  | PCompact -> varint v

(** val w_i32 : proto -> z -> bytes **)

let w_i32 p v =
  match p with
  | PBinary -> be_bytes (S (S (S (S O)))) (w32 v)
  | PCompact -> varint v

(** val w_i64 : proto -> z -> bytes **)

let w_i64 p v =
  match p with
  | PBinary -> be_bytes (S (S (S (S (S (S (S (S O)))))))) (w64 v)
  | PCompact -> varint v

(** val w_f64 : proto -> z -> bytes **)

let w_f64 _ bits =
  be_bytes (S (S (S (S (S (S (S (S O)))))))) bits

(** val w_len : proto -> z -> bytes **)

let w_len p n0 =
  match p with
  | PBinary -> be_bytes (S (S (S (S O)))) n0
  | PCompact -> uvarint n0

(** val w_bytes : proto -> bytes -> bytes **)

let w_bytes p s =
  app (w_len p (len s)) s

(** val w_field : proto -> z -> z -> bytes **)

let w_field p id0 ty =
  match p with
  | PBinary -> app ((w8 ty) :: []) (be_bytes (S (S O)) (w16 id0))
  | PCompact ->
    if Z.eqb ty c_STOP
    then Z0 :: []
    else if Z.leb id0 (Zpos (XI (XI (XI XH))))
         then (Z.coq_lor (w8 (Z.mul id0 (Zpos (XO (XO (XO (XO XH)))))))
                (w8 ty)) :: []
         else app ((w8 ty) :: []) (varint id0)

(** val w_list : proto -> z -> z -> bytes **)

let w_list p size1 ty =
  match p with
  | PBinary -> app ((w8 ty) :: []) (be_bytes (S (S (S (S O)))) (w32 size1))
  | PCompact ->
    if Z.leb size1 (Zpos (XO (XI (XI XH))))
    then (Z.coq_lor (w8 (Z.mul size1 (Zpos (XO (XO (XO (XO XH))))))) (w8 ty)) :: []
    else app
           ((Z.coq_lor (Zpos (XO (XO (XO (XO (XI (XI (XI XH)))))))) (w8 ty)) :: [])
           (uvarint size1)

(** val w_map : proto -> z -> z -> z -> bytes **)

let w_map p size1 k v =
  match p with
  | PBinary ->
    app ((w8 k) :: ((w8 v) :: [])) (be_bytes (S (S (S (S O)))) (w32 size1))
  | PCompact ->
    app (uvarint size1)
      (if Z.eqb size1 Z0
       then []
       else (Z.coq_lor (w8 (Z.mul k (Zpos (XO (XO (XO (XO XH))))))) (w8 v)) :: [])

(** val is_zero : tval -> bool **)

let rec is_zero = function
| TvBool b -> negb b
| TvInt z0 -> Z.eqb z0 Z0
| TvBytes (nn, _) -> (||) (negb nn) false
| TvList (nn, _) -> negb nn
| TvSet (nn, _) -> negb nn
| TvMap (nn, _) -> negb nn
| TvStruct vs -> forallb is_zero vs
| TvPtr o -> (match o with
              | Some _ -> false
              | None -> true)

(** val is_zero_at : tty -> tval -> bool **)

let is_zero_at t v =
  match t with
  | ThF64 ->
    (match v with
     | TvInt z0 ->
       (||) (Z.eqb z0 Z0)
         (Z.eqb z0 (Z.pow (Zpos (XO XH)) (Zpos (XI (XI (XI (XI (XI XH))))))))
     | _ -> is_zero v)
  | ThStr ->
    (match v with
     | TvBytes (_, s) -> Z.eqb (len s) Z0
     | _ -> is_zero v)
  | _ -> is_zero v

(** val is_zero_t : tty -> tval -> bool **)

let rec is_zero_t t v =
  match t with
  | ThStruct fs ->
    (match v with
     | TvStruct vs ->
       let rec go fs0 vs0 =
         match fs0 with
         | [] -> true
         | t0 :: fr ->
           let TField (_, _, ft) = t0 in
           (match vs0 with
            | [] -> true
            | x :: vr -> (&&) (is_zero_t ft x) (go fr vr))
       in go fs vs
     | _ -> is_zero_at t v)
  | _ -> is_zero_at t v

(** val zero_of : tty -> tval **)

let rec zero_of = function
| ThBool -> TvBool false
| ThStr -> TvBytes (true, [])
| ThBytes -> TvBytes (false, [])
| ThList _ -> TvList (false, [])
| ThSet _ -> TvSet (false, [])
| ThMap (_, _) -> TvMap (false, [])
| ThStruct fs ->
  TvStruct
    (let rec go = function
     | [] -> []
     | t0 :: r -> let TField (_, _, ft) = t0 in (zero_of ft) :: (go r)
     in go fs)
| ThPtr _ -> TvPtr None
| _ -> TvInt Z0

(** val insert_by_id :
    (tfield * 'a1) -> (tfield * 'a1) list -> (tfield * 'a1) list **)

let rec insert_by_id x l = match l with
| [] -> x :: []
| y :: r ->
  if Z.leb (fld_id (fst y)) (fld_id (fst x))
  then y :: (insert_by_id x r)
  else x :: l

(** val sort_by_id : (tfield * 'a1) list -> (tfield * 'a1) list **)

let sort_by_id l =
  fold_left (fun acc x -> insert_by_id x acc) l []

(** val deref_bool : tval -> bool **)

let deref_bool v =
  let rec go n0 v0 =
    match n0 with
    | O -> false
    | S n' ->
      (match v0 with
       | TvBool b -> b
       | TvPtr o -> (match o with
                     | Some x -> go n' x
                     | None -> false)
       | _ -> false)
  in go (S (S (S (S (S (S (S (S O)))))))) v

(** val enc : proto -> tty -> tval -> bytes **)

let rec enc p t v =
  match t with
  | ThBool ->
    (match v with
     | TvBool b -> (if b then Zpos XH else Z0) :: []
     | _ -> [])
  | ThI8 -> (match v with
             | TvInt z0 -> (w8 z0) :: []
             | _ -> [])
  | ThI16 -> (match v with
              | TvInt z0 -> w_i16 p z0
              | _ -> [])
  | ThI32 -> (match v with
              | TvInt z0 -> w_i32 p z0
              | _ -> [])
  | ThI64 -> (match v with
              | TvInt z0 -> w_i64 p z0
              | _ -> [])
  | ThF64 -> (match v with
              | TvInt z0 -> w_f64 p z0
              | _ -> [])
  | ThList et ->
    (match v with
     | TvList (_, es) ->
       app (w_list p (len es) (type_of et))
         (let rec go = function
          | [] -> []
          | x :: r -> app (enc p et x) (go r)
          in go es)
     | _ -> [])
  | ThSet kt ->
    (match v with
     | TvSet (_, ks) ->
       app (w_list p (len ks) (type_of kt))
         (let rec go = function
          | [] -> []
          | x :: r -> app (enc p kt x) (go r)
          in go ks)
     | _ -> [])
  | ThMap (kt, vt) ->
    (match v with
     | TvMap (_, es) ->
       app (w_map p (len es) (type_of kt) (type_of vt))
         (let rec go = function
          | [] -> []
          | p0 :: r ->
            let (k, x) = p0 in app (enc p kt k) (app (enc p vt x) (go r))
          in go es)
     | _ -> [])
  | ThStruct fs ->
    (match v with
     | TvStruct vs ->
       let encs =
         let rec mk fs0 vs0 =
           match fs0 with
           | [] -> []
           | f :: fr ->
             (match vs0 with
              | [] -> []
              | x :: vr ->
                let body =
                  let TField (_, fl, ft) = f in
                  if has_flag0 fl f_enum
                  then (match ft with
                        | ThI8 ->
                          (match x with
                           | TvInt z0 -> w_i32 p (s32 z0)
                           | _ -> enc p ft x)
                        | ThI16 ->
                          (match x with
                           | TvInt z0 -> w_i32 p (s32 z0)
                           | _ -> enc p ft x)
                        | ThI32 ->
                          (match x with
                           | TvInt z0 -> w_i32 p (s32 z0)
                           | _ -> enc p ft x)
                        | ThI64 ->
                          (match x with
                           | TvInt z0 -> w_i32 p (s32 z0)
                           | _ -> enc p ft x)
                        | _ -> enc p ft x)
                  else enc p ft x
                in
                (f, (x, body)) :: (mk fr vr))
         in mk fs vs
       in
       let sorted = sort_by_id encs in
       let rec go l last =
         match l with
         | [] -> w_field p Z0 c_STOP
         | p0 :: r ->
           let (f, p1) = p0 in
           let (x, body) = p1 in
           let skip0 =
             (||)
               (match x with
                | TvPtr o -> (match o with
                              | Some _ -> false
                              | None -> true)
                | _ -> false)
               ((&&) (negb (has_flag0 (fld_flags f) f_required))
                 (is_zero_t (fld_ty f) x))
           in
           if skip0
           then go r last
           else let ty = type_of (fld_ty f) in
                let delta = s16 (Z.sub (fld_id f) last) in
                let coalesce =
                  match p with
                  | PBinary -> false
                  | PCompact -> Z.eqb ty c_BOOL
                in
                let wty = if (&&) coalesce (deref_bool x) then c_TRUE else ty
                in
                app
                  (w_field p
                    (match p with
                     | PBinary -> fld_id f
                     | PCompact ->
                       if Z.leb delta (Zpos (XI (XI (XI XH))))
                       then delta
                       else fld_id f) wty)
                  (app (if coalesce then [] else body) (go r (fld_id f)))
       in go sorted Z0
     | _ -> [])
  | ThPtr t' ->
    (match v with
     | TvPtr o ->
       (match o with
        | Some x -> enc p t' x
        | None -> enc p t' (zero_of t'))
     | _ -> [])
  | _ -> (match v with
          | TvBytes (_, s) -> w_bytes p s
          | _ -> [])

(** val tMarshal : proto -> tty -> tval -> bytes **)

let tMarshal =
  enc

type 'a rd = bytes -> ('a * bytes) tres

(** val r_byte : z rd **)

let r_byte = function
| [] -> TErr EEOF
| x :: r -> TOk (x, r)

(** val r_full : nat -> bytes rd **)

let r_full n0 b =
  if Nat.eqb n0 O
  then TOk ([], b)
  else (match b with
        | [] -> TErr EEOF
        | _ :: _ ->
          if Nat.ltb (length b) n0
          then TErr EUnexpectedEOF
          else TOk ((firstn n0 b), (skipn n0 b)))

(** val be_val : bytes -> z **)

let rec be_val b =
  fold_left (fun acc x ->
    Z.add (Z.mul acc (Zpos (XO (XO (XO (XO (XO (XO (XO (XO XH)))))))))) x) b
    Z0

(** val r_uvarint_loop : nat -> z -> z -> z -> bytes -> (z * bytes) tres **)

let rec r_uvarint_loop fuel i x s b =
  match fuel with
  | O -> TErr EOther
  | S f ->
    (match b with
     | [] -> TErr (if Z.eqb i Z0 then EEOF else EUnexpectedEOF)
     | c :: r ->
       if Z.ltb c (Zpos (XO (XO (XO (XO (XO (XO (XO XH))))))))
       then if (&&) (Z.eqb i (Zpos (XI (XO (XO XH))))) (Z.gtb c (Zpos XH))
            then TErr EOther
            else TOk ((Z.coq_lor x (w64 (Z.shiftl c s))), r)
       else r_uvarint_loop f (Z.add i (Zpos XH))
              (Z.coq_lor x
                (w64
                  (Z.shiftl
                    (Z.coq_land c (Zpos (XI (XI (XI (XI (XI (XI XH)))))))) s)))
              (Z.add s (Zpos (XI (XI XH)))) r)

(** val r_uvarint : z -> z rd **)

let r_uvarint max0 b =
  tbind (r_uvarint_loop (S (S (S (S (S (S (S (S (S (S O)))))))))) Z0 Z0 Z0 b)
    (fun pat ->
    let (u, r) = pat in if Z.gtb u max0 then TErr EOther else TOk (u, r))

(** val unzz : z -> z **)

let unzz u =
  if Z.even u
  then Z.div u (Zpos (XO XH))
  else Z.opp (Z.div (Z.add u (Zpos XH)) (Zpos (XO XH)))

(** val r_varint : z -> z -> z rd **)

let r_varint lo hi b =
  tbind (r_uvarint_loop (S (S (S (S (S (S (S (S (S (S O)))))))))) Z0 Z0 Z0 b)
    (fun pat ->
    let (u, r) = pat in
    let v = unzz u in
    if (||) (Z.ltb v lo) (Z.gtb v hi) then TErr EOther else TOk (v, r))

(** val r_i16 : proto -> z rd **)

let r_i16 p b =
  match p with
  | PBinary ->
    tbind (r_full (S (S O)) b) (fun pat ->
      let (x, r) = pat in TOk ((s16 (be_val x)), r))
  | PCompact ->
    r_varint (Z.opp (Z.pow (Zpos (XO XH)) (Zpos (XI (XI (XI XH))))))
      (Z.sub (Z.pow (Zpos (XO XH)) (Zpos (XI (XI (XI XH))))) (Zpos XH)) b

(** val r_i32 : proto -> z rd **)

let r_i32 p b =
  match p with
  | PBinary ->
    tbind (r_full (S (S (S (S O)))) b) (fun pat ->
      let (x, r) = pat in TOk ((s32 (be_val x)), r))
  | PCompact ->
    r_varint (Z.opp (Z.pow (Zpos (XO XH)) (Zpos (XI (XI (XI (XI XH)))))))
      (Z.sub (Z.pow (Zpos (XO XH)) (Zpos (XI (XI (XI (XI XH)))))) (Zpos XH)) b

(** val r_i64 : proto -> z rd **)

let r_i64 p b =
  match p with
  | PBinary ->
    tbind (r_full (S (S (S (S (S (S (S (S O)))))))) b) (fun pat ->
      let (x, r) = pat in TOk ((s64 (be_val x)), r))
  | PCompact ->
    r_varint
      (Z.opp (Z.pow (Zpos (XO XH)) (Zpos (XI (XI (XI (XI (XI XH))))))))
      (Z.sub (Z.pow (Zpos (XO XH)) (Zpos (XI (XI (XI (XI (XI XH))))))) (Zpos
        XH)) b

(** val r_f64 : proto -> z rd **)

let r_f64 _ b =
  tbind (r_full (S (S (S (S (S (S (S (S O)))))))) b) (fun pat ->
    let (x, r) = pat in TOk ((be_val x), r))

(** val r_len : proto -> z rd **)

let r_len p b =
  match p with
  | PBinary ->
    tbind (r_full (S (S (S (S O)))) b) (fun pat ->
      let (x, r) = pat in
      let n0 = be_val x in
      if Z.gtb n0
           (Z.sub (Z.pow (Zpos (XO XH)) (Zpos (XI (XI (XI (XI XH)))))) (Zpos
             XH))
      then TErr EOther
      else TOk (n0, r))
  | PCompact ->
    r_uvarint
      (Z.sub (Z.pow (Zpos (XO XH)) (Zpos (XI (XI (XI (XI XH)))))) (Zpos XH)) b

(** val r_bytes : proto -> bytes rd **)

let r_bytes p b =
  tbind (r_len p b) (fun pat ->
    let (n0, r) = pat in
    if Z.ltb (len r) n0
    then TErr EUnexpectedEOF
    else TOk ((slice_to r n0), (slice_from r n0)))

(** val r_field : proto -> ((z * z) * bool) rd **)

let r_field p b =
  match p with
  | PBinary ->
    tbind (r_byte b) (fun pat ->
      let (t, r) = pat in
      tbind (dont_expect_eof (r_i16 PBinary r)) (fun pat0 ->
        let (i, r0) = pat0 in TOk (((i, (s8 t)), false), r0)))
  | PCompact ->
    tbind (r_byte b) (fun pat ->
      let (x, r) = pat in
      if Z.eqb x c_STOP
      then TOk (((Z0, Z0), false), r)
      else if negb (Z.eqb (Z.shiftr x (Zpos (XO (XO XH)))) Z0)
           then TOk ((((Z.shiftr x (Zpos (XO (XO XH)))),
                  (Z.coq_land x (Zpos (XI (XI (XI XH)))))), true), r)
           else tbind (dont_expect_eof (r_i16 PCompact r)) (fun pat0 ->
                  let (i, r0) = pat0 in TOk (((i, (s8 x)), false), r0)))

(** val r_list : proto -> (z * z) rd **)

let r_list p b =
  match p with
  | PBinary ->
    tbind (r_byte b) (fun pat ->
      let (t, r) = pat in
      tbind (dont_expect_eof (r_i32 PBinary r)) (fun pat0 ->
        let (n0, r0) = pat0 in TOk ((n0, (s8 t)), r0)))
  | PCompact ->
    tbind (r_byte b) (fun pat ->
      let (x, r) = pat in
      if negb
           (Z.eqb (Z.shiftr x (Zpos (XO (XO XH)))) (Zpos (XI (XI (XI XH)))))
      then TOk (((Z.shiftr x (Zpos (XO (XO XH)))),
             (Z.coq_land x (Zpos (XI (XI (XI XH)))))), r)
      else tbind
             (dont_expect_eof
               (r_uvarint
                 (Z.sub (Z.pow (Zpos (XO XH)) (Zpos (XI (XI (XI (XI XH))))))
                   (Zpos XH)) r)) (fun pat0 ->
             let (n0, r0) = pat0 in
             TOk ((n0, (Z.coq_land x (Zpos (XI (XI (XI XH)))))), r0)))

(** val r_map : proto -> ((z * z) * z) rd **)

let r_map p b =
  match p with
  | PBinary ->
    tbind (r_byte b) (fun pat ->
      let (k, r) = pat in
      tbind (dont_expect_eof (r_byte r)) (fun pat0 ->
        let (v, r0) = pat0 in
        tbind (dont_expect_eof (r_i32 PBinary r0)) (fun pat1 ->
          let (n0, r1) = pat1 in TOk (((n0, (s8 k)), (s8 v)), r1))))
  | PCompact ->
    tbind
      (r_uvarint
        (Z.sub (Z.pow (Zpos (XO XH)) (Zpos (XI (XI (XI (XI XH)))))) (Zpos XH))
        b) (fun pat ->
      let (n0, r) = pat in
      if Z.eqb n0 Z0
      then TOk (((Z0, Z0), Z0), r)
      else tbind (dont_expect_eof (r_byte r)) (fun pat0 ->
             let (x, r0) = pat0 in
             TOk (((n0, (Z.shiftr x (Zpos (XO (XO XH))))),
             (Z.coq_land x (Zpos (XI (XI (XI XH)))))), r0)))

(** val skip : nat -> proto -> z -> bytes -> bytes tres **)

let rec skip fuel p ty b =
  match fuel with
  | O -> TOutOfFuel
  | S f ->
    if (||) ((||) (Z.eqb ty c_TRUE) (Z.eqb ty c_BOOL)) (Z.eqb ty c_I8)
    then tbind (r_byte b) (fun pat -> let (_, r) = pat in TOk r)
    else if Z.eqb ty c_I16
         then tbind (r_i16 p b) (fun pat -> let (_, r) = pat in TOk r)
         else if Z.eqb ty c_I32
              then tbind (r_i32 p b) (fun pat -> let (_, r) = pat in TOk r)
              else if Z.eqb ty c_I64
                   then tbind (r_i64 p b) (fun pat ->
                          let (_, r) = pat in TOk r)
                   else if Z.eqb ty c_DOUBLE
                        then tbind (r_f64 p b) (fun pat ->
                               let (_, r) = pat in TOk r)
                        else if Z.eqb ty c_BINARY
                             then tbind (r_len p b) (fun pat ->
                                    let (n0, r) = pat in
                                    if Z.eqb n0 Z0
                                    then TOk r
                                    else if Z.ltb (len r) n0
                                         then TErr EUnexpectedEOF
                                         else TOk (slice_from r n0))
                             else if (||) (Z.eqb ty c_LIST) (Z.eqb ty c_SET)
                                  then tbind (r_list p b) (fun pat ->
                                         let (h, r) = pat in
                                         let (n0, et) = h in
                                         let rec go k cnt r0 =
                                           if Z.leb cnt Z0
                                           then TOk r0
                                           else (match k with
                                                 | O -> TOutOfFuel
                                                 | S k' ->
                                                   tbind
                                                     (dont_expect_eof
                                                       (skip f p et r0))
                                                     (fun r1 ->
                                                     go k'
                                                       (Z.sub cnt (Zpos XH))
                                                       r1))
                                         in go (S (length r)) n0 r)
                                  else if Z.eqb ty c_MAP
                                       then tbind (r_map p b) (fun pat ->
                                              let (h, r) = pat in
                                              let (p0, vt) = h in
                                              let (n0, kt) = p0 in
                                              let rec go k cnt r0 =
                                                if Z.leb cnt Z0
                                                then TOk r0
                                                else (match k with
                                                      | O -> TOutOfFuel
                                                      | S k' ->
                                                        tbind
                                                          (dont_expect_eof
                                                            (skip f p kt r0))
                                                          (fun r1 ->
                                                          tbind
                                                            (dont_expect_eof
                                                              (skip f p vt r1))
                                                            (fun r2 ->
                                                            go k'
                                                              (Z.sub cnt
                                                                (Zpos XH)) r2)))
                                              in go (S (length r)) n0 r)
                                       else if Z.eqb ty c_STRUCT
                                            then let rec go k r last nfields =
                                                   match k with
                                                   | O -> TOutOfFuel
                                                   | S k' ->
                                                     (match r_field p r with
                                                      | TOk a ->
                                                        let (p0, r0) = a in
                                                        let (p1, isdelta) = p0
                                                        in
                                                        let (id0, fty) = p1 in
                                                        if Z.eqb fty c_STOP
                                                        then TOk r0
                                                        else let id1 =
                                                               if isdelta
                                                               then s16
                                                                    (Z.add
                                                                    id0 last)
                                                               else id0
                                                             in
                                                             tbind
                                                               (dont_expect_eof
                                                                 (if 
                                                                    (&&)
                                                                    ((||)
                                                                    (Z.eqb
                                                                    fty
                                                                    c_TRUE)
                                                                    (Z.eqb
                                                                    fty
                                                                    c_BOOL))
                                                                    (match p with
                                                                    | PBinary ->
                                                                    false
                                                                    | PCompact ->
                                                                    true)
                                                                  then TOk r0
                                                                  else 
                                                                    skip f p
                                                                    fty r0))
                                                               (fun r1 ->
                                                               go k' r1 id1
                                                                 (Z.add
                                                                   nfields
                                                                   (Zpos XH)))
                                                      | TErr e ->
                                                        TErr
                                                          (if (&&)
                                                                (Z.gtb
                                                                  nfields Z0)
                                                                (match e with
                                                                 | EEOF ->
                                                                   true
                                                                 | _ -> false)
                                                           then EUnexpectedEOF
                                                           else e)
                                                      | TPanic -> TPanic
                                                      | TOutOfFuel ->
                                                        TOutOfFuel)
                                                 in go f b Z0 Z0
                                            else TErr EOther

(** val set_nth0 : tval list -> nat -> tval -> tval list **)

let rec set_nth0 vs i v =
  match vs with
  | [] -> []
  | x :: r -> (match i with
               | O -> v :: r
               | S i' -> x :: (set_nth0 r i' v))

(** val tval_eqb : tval -> tval -> bool **)

let rec tval_eqb a b =
  match a with
  | TvBool x -> (match b with
                 | TvBool y -> eqb x y
                 | _ -> false)
  | TvInt x -> (match b with
                | TvInt y -> Z.eqb x y
                | _ -> false)
  | TvBytes (_, x) ->
    (match b with
     | TvBytes (_, y) -> bytes_eqb x y
     | _ -> false)
  | _ -> false

(** val map_set : (tval * tval) list -> tval -> tval -> (tval * tval) list **)

let rec map_set es k v =
  match es with
  | [] -> (k, v) :: []
  | p :: r ->
    let (k', v') = p in
    if tval_eqb k' k then (k', v) :: r else (k', v') :: (map_set r k v)

(** val set_add : tval list -> tval -> tval list **)

let rec set_add ks k =
  match ks with
  | [] -> k :: []
  | k' :: r -> if tval_eqb k' k then ks else k' :: (set_add r k)

(** val wrap_ptrs : tty -> tval -> tval **)

let rec wrap_ptrs t v =
  match t with
  | ThPtr t' -> TvPtr (Some (wrap_ptrs t' v))
  | _ -> v

(** val dec :
    nat -> proto -> tty -> z -> tval -> bytes -> (tval * bytes) tres **)

let rec dec fuel p t flags old b =
  match fuel with
  | O -> TOutOfFuel
  | S f ->
    (match t with
     | ThBool ->
       tbind (r_byte b) (fun pat ->
         let (x, r) = pat in TOk ((TvBool (negb (Z.eqb x Z0))), r))
     | ThI8 ->
       tbind (r_byte b) (fun pat ->
         let (x, r) = pat in TOk ((TvInt (s8 x)), r))
     | ThI16 ->
       tbind (r_i16 p b) (fun pat -> let (x, r) = pat in TOk ((TvInt x), r))
     | ThI32 ->
       tbind (r_i32 p b) (fun pat -> let (x, r) = pat in TOk ((TvInt x), r))
     | ThI64 ->
       tbind (r_i64 p b) (fun pat -> let (x, r) = pat in TOk ((TvInt x), r))
     | ThF64 ->
       tbind (r_f64 p b) (fun pat -> let (x, r) = pat in TOk ((TvInt x), r))
     | ThStr ->
       tbind (r_bytes p b) (fun pat ->
         let (s, r) = pat in TOk ((TvBytes (true, s)), r))
     | ThBytes ->
       tbind (r_bytes p b) (fun pat ->
         let (s, r) = pat in TOk ((TvBytes (true, s)), r))
     | ThList et ->
       tbind (r_list p b) (fun pat ->
         let (h, r) = pat in
         let (n0, lt) = h in
         let lt0 = if Z.eqb lt c_TRUE then c_BOOL else lt in
         if negb (Z.eqb (type_of et) lt0)
         then if has_flag0 flags f_strict
              then TErr EMismatch
              else TOk (old, r)
         else if Z.ltb n0 Z0
              then TErr EOther
              else let rec go k cnt acc r0 =
                     if Z.leb cnt Z0
                     then TOk ((TvList (true, (rev acc))), r0)
                     else (match k with
                           | O -> TOutOfFuel
                           | S k' ->
                             tbind
                               (dont_expect_eof
                                 (dec f p et (Z.coq_land flags f_strict)
                                   (zero_of et) r0)) (fun pat0 ->
                               let (x, r1) = pat0 in
                               go k' (Z.sub cnt (Zpos XH)) (x :: acc) r1))
                   in go (S (length r)) n0 [] r)
     | ThSet kt ->
       tbind (r_list p b) (fun pat ->
         let (h, r) = pat in
         let (n0, lt) = h in
         let lt0 = if Z.eqb lt c_TRUE then c_BOOL else lt in
         if Z.ltb n0 Z0
         then TErr EOther
         else if Z.eqb n0 Z0
              then TOk ((TvSet (true, [])), r)
              else if negb (Z.eqb (type_of kt) lt0)
                   then if has_flag0 flags f_strict
                        then TErr EMismatch
                        else TOk ((TvSet (true, [])), r)
                   else let rec go k cnt acc r0 =
                          if Z.leb cnt Z0
                          then TOk ((TvSet (true, acc)), r0)
                          else (match k with
                                | O -> TOutOfFuel
                                | S k' ->
                                  tbind
                                    (dont_expect_eof
                                      (dec f p kt (Z.coq_land flags f_strict)
                                        (zero_of kt) r0)) (fun pat0 ->
                                    let (x, r1) = pat0 in
                                    go k' (Z.sub cnt (Zpos XH))
                                      (set_add acc x) r1))
                        in go (S (length r)) n0 [] r)
     | ThMap (kt, vt) ->
       tbind (r_map p b) (fun pat ->
         let (h, r) = pat in
         let (p0, mv) = h in
         let (n0, mk) = p0 in
         if Z.ltb n0 Z0
         then TErr EOther
         else if Z.eqb n0 Z0
              then TOk ((TvMap (true, [])), r)
              else if negb (Z.eqb (type_of kt) mk)
                   then if has_flag0 flags f_strict
                        then TErr EMismatch
                        else TOk ((TvMap (true, [])), r)
                   else if negb (Z.eqb (type_of vt) mv)
                        then if has_flag0 flags f_strict
                             then TErr EMismatch
                             else TOk ((TvMap (true, [])), r)
                        else let rec go k cnt acc r0 =
                               if Z.leb cnt Z0
                               then TOk ((TvMap (true, acc)), r0)
                               else (match k with
                                     | O -> TOutOfFuel
                                     | S k' ->
                                       tbind
                                         (dont_expect_eof
                                           (dec f p kt
                                             (Z.coq_land flags f_strict)
                                             (zero_of kt) r0)) (fun pat0 ->
                                         let (x, r1) = pat0 in
                                         tbind
                                           (dont_expect_eof
                                             (dec f p vt
                                               (Z.coq_land flags f_strict)
                                               (zero_of vt) r1)) (fun pat1 ->
                                           let (y, r2) = pat1 in
                                           go k' (Z.sub cnt (Zpos XH))
                                             (map_set acc x y) r2)))
                             in go (S (length r)) n0 [] r)
     | ThStruct fs ->
       let vs =
         match old with
         | TvBool _ ->
           (match zero_of t with
            | TvBool _ -> []
            | TvInt _ -> []
            | TvBytes (_, _) -> []
            | TvList (_, _) -> []
            | TvSet (_, _) -> []
            | TvMap (_, _) -> []
            | TvStruct z0 -> z0
            | TvPtr _ -> [])
         | TvStruct vs -> vs
         | _ -> (match zero_of t with
                 | TvStruct z0 -> z0
                 | _ -> [])
       in
       let ids = map fld_id fs in
       let minID =
         fold_left (fun m i ->
           if (||) (Z.ltb i m) (Z.eqb m Z0) then i else m) ids Z0
       in
       let maxID = fold_left Z.max ids Z0 in
       let nslots = Z.add (Z.sub maxID minID) (Zpos XH) in
       let nwords =
         Z.add (Z.div nslots (Zpos (XO (XO (XO (XO (XO (XO XH)))))))) (Zpos
           XH)
       in
       let lookup = fun id0 ->
         let rec go fs0 i =
           match fs0 with
           | [] -> None
           | fd :: r ->
             if Z.eqb (fld_id fd) id0 then Some (i, fd) else go r (S i)
         in go fs O
       in
       let strictf = Z.coq_land flags f_strict in
       let rec loop k r last nfields vs0 seen =
         match k with
         | O -> TOutOfFuel
         | S k' ->
           (match r_field p r with
            | TOk a ->
              let (p0, r0) = a in
              let (p1, isdelta) = p0 in
              let (id0, fty) = p1 in
              if Z.eqb fty c_STOP
              then let missing =
                     existsb (fun fd ->
                       (&&) (has_flag0 (fld_flags fd) f_required)
                         (negb
                           (existsb (Z.eqb (Z.sub (fld_id fd) minID)) seen)))
                       fs
                   in
                   if missing then TErr EMissing else TOk ((TvStruct vs0), r0)
              else let id1 = if isdelta then s16 (Z.add id0 last) else id0 in
                   let slot = Z.sub id1 minID in
                   let known =
                     if (||) (Z.ltb slot Z0) (Z.geb slot nslots)
                     then None
                     else lookup id1
                   in
                   (match known with
                    | Some p2 ->
                      let (i, fd) = p2 in
                      if Z.geb
                           (Z.div slot (Zpos (XO (XO (XO (XO (XO (XO
                             XH)))))))) nwords
                      then TPanic
                      else let seen0 = slot :: seen in
                           let fexp = type_of (fld_ty fd) in
                           if (&&) (negb (Z.eqb fty fexp))
                                (negb
                                  ((&&) (Z.eqb fty c_TRUE)
                                    (Z.eqb fexp c_BOOL)))
                           then if has_flag0 flags f_strict
                                then TErr EMismatch
                                else loop k' r0 id1 (Z.add nfields (Zpos XH))
                                       vs0 seen0
                           else let oldf = nth i vs0 (zero_of (fld_ty fd)) in
                                if (&&)
                                     (match p with
                                      | PBinary -> false
                                      | PCompact -> true)
                                     ((||) (Z.eqb fty c_TRUE)
                                       (Z.eqb fty c_BOOL))
                                then loop k' r0 id1 (Z.add nfields (Zpos XH))
                                       (set_nth0 vs0 i
                                         (wrap_ptrs (fld_ty fd) (TvBool
                                           (Z.eqb fty c_TRUE)))) seen0
                                else let fl = Z.coq_lor strictf (fld_flags fd)
                                     in
                                     tbind
                                       (dont_expect_eof
                                         (if has_flag0 (fld_flags fd) f_enum
                                          then (match fld_ty fd with
                                                | ThI8 ->
                                                  tbind (r_i32 p r0)
                                                    (fun pat ->
                                                    let (z0, r1) = pat in
                                                    TOk ((TvInt z0), r1))
                                                | ThI16 ->
                                                  tbind (r_i32 p r0)
                                                    (fun pat ->
                                                    let (z0, r1) = pat in
                                                    TOk ((TvInt z0), r1))
                                                | ThI32 ->
                                                  tbind (r_i32 p r0)
                                                    (fun pat ->
                                                    let (z0, r1) = pat in
                                                    TOk ((TvInt z0), r1))
                                                | ThI64 ->
                                                  tbind (r_i32 p r0)
                                                    (fun pat ->
                                                    let (z0, r1) = pat in
                                                    TOk ((TvInt z0), r1))
                                                | x -> dec f p x fl oldf r0)
                                          else dec f p (fld_ty fd) fl oldf r0))
                                       (fun pat ->
                                       let (x, r1) = pat in
                                       loop k' r1 id1
                                         (Z.add nfields (Zpos XH))
                                         (set_nth0 vs0 i x) seen0)
                    | None ->
                      tbind
                        (dont_expect_eof
                          (if (&&)
                                ((||) (Z.eqb fty c_TRUE) (Z.eqb fty c_BOOL))
                                (match p with
                                 | PBinary -> false
                                 | PCompact -> true)
                           then TOk r0
                           else skip f p fty r0)) (fun r1 ->
                        loop k' r1 id1 (Z.add nfields (Zpos XH)) vs0 seen))
            | TErr e ->
              TErr
                (if (&&) (Z.gtb nfields Z0)
                      (match e with
                       | EEOF -> true
                       | _ -> false)
                 then EUnexpectedEOF
                 else e)
            | TPanic -> TPanic
            | TOutOfFuel -> TOutOfFuel)
       in loop f b Z0 Z0 vs []
     | ThPtr t' ->
       let cur =
         match old with
         | TvPtr o -> (match o with
                       | Some x -> x
                       | None -> zero_of t')
         | _ -> zero_of t'
       in
       tbind (dec f p t' flags cur b) (fun pat ->
         let (x, r) = pat in TOk ((TvPtr (Some x)), r)))

(** val tUnmarshal : nat -> proto -> tty -> bytes -> tval tres **)

let tUnmarshal fuel p t b =
  tbind (dec fuel p t Z0 (zero_of t) b) (fun pat ->
    let (v, r) = pat in (match r with
                         | [] -> TOk v
                         | _ :: _ -> TErr EOther))

(** val tlim : z **)

let tlim =
  Z.pow (Zpos (XO XH)) (Zpos (XI (XI (XI (XI XH)))))

(** val is_key_ty : tty -> bool **)

let is_key_ty = function
| ThBool -> true
| ThI8 -> true
| ThI16 -> true
| ThI32 -> true
| ThI64 -> true
| ThStr -> true
| _ -> false

(** val distinctZ : z list -> bool **)

let rec distinctZ = function
| [] -> true
| x :: r -> (&&) (negb (existsb (Z.eqb x) r)) (distinctZ r)

(** val zero_size : tty -> bool **)

let rec zero_size = function
| ThStruct fs ->
  let rec go = function
  | [] -> true
  | t0 :: r -> let TField (_, _, ft) = t0 in (&&) (zero_size ft) (go r)
  in go fs
| _ -> false

(** val ty_ok : tty -> bool **)

let rec ty_ok = function
| ThList et -> ty_ok et
| ThSet kt -> is_key_ty kt
| ThMap (kt, vt) ->
  (&&) ((&&) (is_key_ty kt) (ty_ok vt)) (negb (zero_size vt))
| ThStruct fs ->
  (&&) (distinctZ (map fld_id fs))
    (let rec go = function
     | [] -> true
     | t0 :: r ->
       let TField (id0, fl, ft) = t0 in
       (&&)
         ((&&)
           ((&&)
             ((&&)
               ((&&)
                 ((&&) (Z.leb (Zpos XH) id0)
                   (Z.ltb id0 (Z.pow (Zpos (XO XH)) (Zpos (XI (XI (XI XH)))))))
                 (ty_ok ft))
               (negb
                 ((&&) (has_flag0 fl f_required) (has_flag0 fl f_optional))))
             ((||) (negb (has_flag0 fl f_enum))
               (match ft with
                | ThI32 -> true
                | _ -> false)))
           ((||)
             ((||)
               ((||)
                 ((||) ((||) (Z.eqb fl Z0) (Z.eqb fl f_required))
                   (Z.eqb fl f_optional)) (Z.eqb fl f_enum))
               (Z.eqb fl (Z.add f_enum f_required)))
             (Z.eqb fl (Z.add f_enum f_optional)))) (go r)
     in go fs)
| ThPtr t' -> (&&) (ty_ok t') (match t' with
                               | ThPtr _ -> false
                               | _ -> true)
| _ -> true

(** val tval_wf : tty -> tval -> bool **)

let rec tval_wf t v =
  match t with
  | ThBool -> (match v with
               | TvBool _ -> true
               | _ -> false)
  | ThI8 ->
    (match v with
     | TvInt z0 ->
       (&&) (Z.leb (Z.opp (Z.pow (Zpos (XO XH)) (Zpos (XI (XI XH))))) z0)
         (Z.ltb z0 (Z.pow (Zpos (XO XH)) (Zpos (XI (XI XH)))))
     | _ -> false)
  | ThI16 ->
    (match v with
     | TvInt z0 ->
       (&&)
         (Z.leb (Z.opp (Z.pow (Zpos (XO XH)) (Zpos (XI (XI (XI XH)))))) z0)
         (Z.ltb z0 (Z.pow (Zpos (XO XH)) (Zpos (XI (XI (XI XH))))))
     | _ -> false)
  | ThI32 ->
    (match v with
     | TvInt z0 ->
       (&&)
         (Z.leb (Z.opp (Z.pow (Zpos (XO XH)) (Zpos (XI (XI (XI (XI XH)))))))
           z0) (Z.ltb z0 (Z.pow (Zpos (XO XH)) (Zpos (XI (XI (XI (XI XH)))))))
     | _ -> false)
  | ThI64 ->
    (match v with
     | TvInt z0 ->
       (&&)
         (Z.leb
           (Z.opp (Z.pow (Zpos (XO XH)) (Zpos (XI (XI (XI (XI (XI XH))))))))
           z0)
         (Z.ltb z0 (Z.pow (Zpos (XO XH)) (Zpos (XI (XI (XI (XI (XI XH))))))))
     | _ -> false)
  | ThF64 ->
    (match v with
     | TvInt z0 ->
       (&&) (Z.leb Z0 z0)
         (Z.ltb z0
           (Z.pow (Zpos (XO XH)) (Zpos (XO (XO (XO (XO (XO (XO XH)))))))))
     | _ -> false)
  | ThStr ->
    (match v with
     | TvBytes (nn, s) -> (&&) ((&&) nn (wfb s)) (Z.ltb (len s) tlim)
     | _ -> false)
  | ThBytes ->
    (match v with
     | TvBytes (nn, s) ->
       (&&) ((&&) (wfb s) (Z.ltb (len s) tlim)) ((||) nn (Z.eqb (len s) Z0))
     | _ -> false)
  | ThList et ->
    (match v with
     | TvList (nn, es) ->
       (&&) ((&&) (Z.ltb (len es) tlim) ((||) nn (Z.eqb (len es) Z0)))
         (let rec go = function
          | [] -> true
          | x :: r ->
            (&&)
              ((&&) (tval_wf et x)
                (negb
                  (match x with
                   | TvPtr o -> (match o with
                                 | Some _ -> false
                                 | None -> true)
                   | _ -> false))) (go r)
          in go es)
     | _ -> false)
  | ThSet kt ->
    (match v with
     | TvSet (nn, ks) ->
       (&&) ((&&) (Z.ltb (len ks) tlim) ((||) nn (Z.eqb (len ks) Z0)))
         (let rec go = function
          | [] -> true
          | x :: r ->
            (&&) ((&&) (tval_wf kt x) (negb (existsb (tval_eqb x) r))) (go r)
          in go ks)
     | _ -> false)
  | ThMap (kt, vt) ->
    (match v with
     | TvMap (nn, es) ->
       (&&) ((&&) (Z.ltb (len es) tlim) ((||) nn (Z.eqb (len es) Z0)))
         (let rec go = function
          | [] -> true
          | p :: r ->
            let (k, x) = p in
            (&&)
              ((&&)
                ((&&) ((&&) (tval_wf kt k) (tval_wf vt x))
                  (negb
                    (match x with
                     | TvPtr o ->
                       (match o with
                        | Some _ -> false
                        | None -> true)
                     | _ -> false)))
                (negb (existsb (fun kv -> tval_eqb k (fst kv)) r))) (go r)
          in go es)
     | _ -> false)
  | ThStruct fs ->
    (match v with
     | TvStruct vs ->
       let rec go fs0 vs0 =
         match fs0 with
         | [] -> (match vs0 with
                  | [] -> true
                  | _ :: _ -> false)
         | t0 :: fr ->
           let TField (_, fl, ft) = t0 in
           (match vs0 with
            | [] -> false
            | x :: vr ->
              (&&)
                ((&&) (tval_wf ft x)
                  (negb
                    ((&&) (has_flag0 fl f_required)
                      (match x with
                       | TvPtr o ->
                         (match o with
                          | Some _ -> false
                          | None -> true)
                       | _ -> false)))) (go fr vr))
       in go fs vs
     | _ -> false)
  | ThPtr t' ->
    (match v with
     | TvPtr o -> (match o with
                   | Some x -> tval_wf t' x
                   | None -> true)
     | _ -> false)

(** val tnorm : tty -> tval -> tval **)

let rec tnorm t v =
  match t with
  | ThF64 ->
    (match v with
     | TvInt z0 ->
       TvInt
         (if Z.eqb z0
               (Z.pow (Zpos (XO XH)) (Zpos (XI (XI (XI (XI (XI XH)))))))
          then Z0
          else z0)
     | _ -> v)
  | ThStr -> (match v with
              | TvBytes (_, s) -> TvBytes (true, s)
              | _ -> v)
  | ThBytes -> (match v with
                | TvBytes (_, s) -> TvBytes (true, s)
                | _ -> v)
  | ThList et ->
    (match v with
     | TvList (_, es) ->
       TvList (true,
         (let rec go = function
          | [] -> []
          | x :: r -> (tnorm et x) :: (go r)
          in go es))
     | _ -> v)
  | ThSet _ -> (match v with
                | TvSet (_, ks) -> TvSet (true, ks)
                | _ -> v)
  | ThMap (_, vt) ->
    (match v with
     | TvMap (_, es) ->
       TvMap (true,
         (let rec go = function
          | [] -> []
          | p :: r -> let (k, x) = p in (k, (tnorm vt x)) :: (go r)
          in go es))
     | _ -> v)
  | ThStruct fs ->
    (match v with
     | TvStruct vs ->
       TvStruct
         (let rec go fs0 vs0 =
            match fs0 with
            | [] -> []
            | t0 :: fr ->
              let TField (_, _, ft) = t0 in
              (match vs0 with
               | [] -> []
               | x :: vr -> (tnorm ft x) :: (go fr vr))
          in go fs vs)
     | _ -> v)
  | ThPtr t' ->
    (match v with
     | TvPtr o ->
       (match o with
        | Some x -> TvPtr (Some (tnorm t' x))
        | None -> v)
     | _ -> v)
  | _ -> v

(** val spec_code : proto -> tty -> z **)

let rec spec_code p = function
| ThBool -> Zpos (XO XH)
| ThI8 -> Zpos (XI XH)
| ThI16 ->
  (match p with
   | PBinary -> Zpos (XO (XI XH))
   | PCompact -> Zpos (XO (XO XH)))
| ThI32 ->
  (match p with
   | PBinary -> Zpos (XO (XO (XO XH)))
   | PCompact -> Zpos (XI (XO XH)))
| ThI64 ->
  (match p with
   | PBinary -> Zpos (XO (XI (XO XH)))
   | PCompact -> Zpos (XO (XI XH)))
| ThF64 ->
  (match p with
   | PBinary -> Zpos (XO (XO XH))
   | PCompact -> Zpos (XI (XI XH)))
| ThList _ ->
  (match p with
   | PBinary -> Zpos (XI (XI (XI XH)))
   | PCompact -> Zpos (XI (XO (XO XH))))
| ThSet _ ->
  (match p with
   | PBinary -> Zpos (XO (XI (XI XH)))
   | PCompact -> Zpos (XO (XI (XO XH))))
| ThMap (_, _) ->
  (match p with
   | PBinary -> Zpos (XI (XO (XI XH)))
   | PCompact -> Zpos (XI (XI (XO XH))))
| ThStruct _ -> Zpos (XO (XO (XI XH)))
| ThPtr t' -> spec_code p t'
| _ ->
  (match p with
   | PBinary -> Zpos (XI (XI (XO XH)))
   | PCompact -> Zpos (XO (XO (XO XH))))

type deviations = { dev_typecodes : bool; dev_stop3 : bool;
                    dev_double_be : bool }

(** val no_dev : deviations **)

let no_dev =
  { dev_typecodes = false; dev_stop3 = false; dev_double_be = false }

(** val pkg_dev : deviations **)

let pkg_dev =
  { dev_typecodes = true; dev_stop3 = true; dev_double_be = true }

(** val le_bytes8 : nat -> z -> bytes **)

let rec le_bytes8 n0 v =
  match n0 with
  | O -> []
  | S n' ->
    (Z.modulo v (Zpos (XO (XO (XO (XO (XO (XO (XO (XO XH)))))))))) :: 
      (le_bytes8 n'
        (Z.div v (Zpos (XO (XO (XO (XO (XO (XO (XO (XO XH)))))))))))

(** val code_of : deviations -> proto -> tty -> z **)

let code_of d p t =
  match p with
  | PBinary ->
    if d.dev_typecodes then spec_code PCompact t else spec_code PBinary t
  | PCompact -> spec_code PCompact t

(** val s_i32 : proto -> z -> bytes **)

let s_i32 p z0 =
  match p with
  | PBinary -> be_bytes (S (S (S (S O)))) (w32 z0)
  | PCompact -> uvarint (zz64 z0)

(** val s_list_header : proto -> z -> z -> bytes **)

let s_list_header p code n0 =
  match p with
  | PBinary -> app (code :: []) (be_bytes (S (S (S (S O)))) n0)
  | PCompact ->
    if Z.ltb n0 (Zpos (XI (XI (XI XH))))
    then (Z.add (Z.mul n0 (Zpos (XO (XO (XO (XO XH)))))) code) :: []
    else app
           ((Z.add (Zpos (XO (XO (XO (XO (XI (XI (XI XH)))))))) code) :: [])
           (uvarint n0)

(** val spec_enc : deviations -> proto -> tty -> tval -> bytes **)

let rec spec_enc d p t v =
  match t with
  | ThBool ->
    (match v with
     | TvBool b -> (if b then Zpos XH else Z0) :: []
     | _ -> [])
  | ThI8 -> (match v with
             | TvInt z0 -> (w8 z0) :: []
             | _ -> [])
  | ThI16 ->
    (match v with
     | TvInt z0 ->
       (match p with
        | PBinary -> be_bytes (S (S O)) (w16 z0)
        | PCompact -> uvarint (zz64 z0))
     | _ -> [])
  | ThI32 -> (match v with
              | TvInt z0 -> s_i32 p z0
              | _ -> [])
  | ThI64 ->
    (match v with
     | TvInt z0 ->
       (match p with
        | PBinary -> be_bytes (S (S (S (S (S (S (S (S O)))))))) (w64 z0)
        | PCompact -> uvarint (zz64 z0))
     | _ -> [])
  | ThF64 ->
    (match v with
     | TvInt z0 ->
       (match p with
        | PBinary -> be_bytes (S (S (S (S (S (S (S (S O)))))))) z0
        | PCompact ->
          if d.dev_double_be
          then be_bytes (S (S (S (S (S (S (S (S O)))))))) z0
          else le_bytes8 (S (S (S (S (S (S (S (S O)))))))) z0)
     | _ -> [])
  | ThList et ->
    (match v with
     | TvList (_, es) ->
       app (s_list_header p (code_of d p et) (len es))
         (let rec go = function
          | [] -> []
          | x :: r -> app (spec_enc d p et x) (go r)
          in go es)
     | _ -> [])
  | ThSet kt ->
    (match v with
     | TvSet (_, ks) ->
       app (s_list_header p (code_of d p kt) (len ks))
         (let rec go = function
          | [] -> []
          | x :: r -> app (spec_enc d p kt x) (go r)
          in go ks)
     | _ -> [])
  | ThMap (kt, vt) ->
    (match v with
     | TvMap (_, es) ->
       app
         (match p with
          | PBinary ->
            app ((code_of d p kt) :: ((code_of d p vt) :: []))
              (be_bytes (S (S (S (S O)))) (len es))
          | PCompact ->
            app (uvarint (len es))
              (if Z.eqb (len es) Z0
               then []
               else (Z.add
                      (Z.mul (code_of d p kt) (Zpos (XO (XO (XO (XO XH))))))
                      (code_of d p vt)) :: []))
         (let rec go = function
          | [] -> []
          | p0 :: r ->
            let (k, x) = p0 in
            app (spec_enc d p kt k) (app (spec_enc d p vt x) (go r))
          in go es)
     | _ -> [])
  | ThStruct fs ->
    (match v with
     | TvStruct vs ->
       let bodies =
         let rec mk fs0 vs0 =
           match fs0 with
           | [] -> []
           | f :: fr ->
             (match vs0 with
              | [] -> []
              | x :: vr ->
                (f, (x,
                  (let TField (_, fl, ft) = f in
                   if has_flag0 fl f_enum
                   then (match x with
                         | TvBool _ -> []
                         | TvInt z0 -> s_i32 p z0
                         | _ -> [])
                   else spec_enc d p ft x))) :: (mk fr vr))
         in mk fs vs
       in
       let rec go l last =
         match l with
         | [] ->
           app (Z0 :: [])
             (match p with
              | PBinary -> if d.dev_stop3 then Z0 :: (Z0 :: []) else []
              | PCompact -> [])
         | p0 :: r ->
           let (f, p1) = p0 in
           let (x, body) = p1 in
           if (||)
                (match x with
                 | TvPtr o -> (match o with
                               | Some _ -> false
                               | None -> true)
                 | _ -> false)
                ((&&) (negb (has_flag0 (fld_flags f) f_required))
                  (is_zero_t (fld_ty f) x))
           then go r last
           else (match p with
                 | PBinary ->
                   app ((code_of d p (fld_ty f)) :: [])
                     (app (be_bytes (S (S O)) (fld_id f))
                       (app body (go r (fld_id f))))
                 | PCompact ->
                   let isbool =
                     Z.eqb (spec_code PCompact (fld_ty f)) (Zpos (XO XH))
                   in
                   let code =
                     if isbool
                     then if deref_bool x then Zpos XH else Zpos (XO XH)
                     else spec_code PCompact (fld_ty f)
                   in
                   let delta = Z.sub (fld_id f) last in
                   app
                     (if (&&) (Z.ltb Z0 delta)
                           (Z.leb delta (Zpos (XI (XI (XI XH)))))
                      then (Z.add (Z.mul delta (Zpos (XO (XO (XO (XO XH))))))
                             code) :: []
                      else app (code :: []) (uvarint (zz64 (fld_id f))))
                     (app (if isbool then [] else body) (go r (fld_id f))))
       in go (sort_by_id bodies) Z0
     | _ -> [])
  | ThPtr t' ->
    (match v with
     | TvPtr o ->
       (match o with
        | Some x -> spec_enc d p t' x
        | None -> spec_enc d p t' (zero_of t'))
     | _ -> [])
  | _ ->
    (match v with
     | TvBytes (_, s) ->
       app
         (match p with
          | PBinary -> be_bytes (S (S (S (S O)))) (len s)
          | PCompact -> uvarint (len s)) s
     | _ -> [])

type rerr =
| REOF
| RUnexpectedEOF
| RFail

type script = (bytes * rerr option) list

(** val read_once : rerr -> script -> z -> (bytes * rerr option) * script **)

let read_once term s n0 =
  match s with
  | [] -> (([], (Some term)), [])
  | p :: r ->
    let (data, e) = p in
    if Z.leb (len data) n0
    then ((data, e), r)
    else (((slice_to data n0), None), (((slice_from data n0), e) :: r))

(** val read_full :
    nat -> rerr -> script -> z -> bytes -> (bytes * rerr option) * script **)

let rec read_full fuel term s n0 acc =
  match fuel with
  | O -> ((acc, (Some RFail)), s)
  | S f ->
    if Z.leb n0 Z0
    then ((acc, None), s)
    else let (p, s') = read_once term s n0 in
         let (d, e) = p in
         let acc0 = app acc d in
         (match e with
          | Some err ->
            if Z.eqb (len d) n0
            then ((acc0, None), s')
            else ((acc0, (Some
                   (match err with
                    | REOF ->
                      if Z.eqb (len acc0) Z0 then REOF else RUnexpectedEOF
                    | _ -> err))), s')
          | None -> read_full f term s' (Z.sub n0 (len d)) acc0)

type dstate = { d_buffer : bytes; d_cap : z; d_remain : bytes; d_offset : 
                z; d_err : rerr option; d_reader : script; d_term : rerr }

(** val d_init : script -> rerr -> dstate **)

let d_init s term =
  { d_buffer = []; d_cap = Z0; d_remain = []; d_offset = Z0; d_err = None;
    d_reader = s; d_term = term }

type dresult =
| DValue of bytes
| DError of rerr
| DSyntax
| DOutOfFuel

(** val is_num_kind : z -> bool **)

let is_num_kind k =
  (&&) (Z.leb (Zpos (XO (XO XH))) k) (Z.leb k (Zpos (XI (XI XH))))

(** val read_value : nat -> nat -> z -> z -> dstate -> dresult * dstate **)

let rec read_value fuel pfuel flags dflags st =
  match fuel with
  | O -> (DOutOfFuel, st)
  | S f ->
    let attempt =
      if Z.eqb (len st.d_remain) Z0
      then None
      else (match json_decoder_parseValue pfuel dflags st.d_remain with
            | Some p ->
              let (p0, err) = p in
              let (p1, k) = p0 in
              let (v, r) = p1 in
              (match err with
               | Some _ ->
                 if negb (Z.eqb (len r) Z0) then Some (DSyntax, st) else None
               | None ->
                 if (||)
                      ((||) (negb (Z.eqb (len r) Z0))
                        (match st.d_err with
                         | Some r0 ->
                           (match r0 with
                            | REOF -> true
                            | _ -> false)
                         | None -> false)) (negb (is_num_kind k))
                 then let (rem', n0) = json_skipSpacesN r in
                      Some ((DValue v), { d_buffer = st.d_buffer; d_cap =
                      st.d_cap; d_remain = rem'; d_offset =
                      (Z.add (Z.add st.d_offset (len v)) n0); d_err =
                      st.d_err; d_reader = st.d_reader; d_term = st.d_term })
                 else None)
            | None -> Some (DOutOfFuel, st))
    in
    (match attempt with
     | Some r -> r
     | None ->
       (match st.d_err with
        | Some e ->
          ((match e with
            | REOF ->
              if negb (Z.eqb (len st.d_remain) Z0)
              then DError RUnexpectedEOF
              else DError REOF
            | _ -> DError e), st)
        | None ->
          if Z.eqb st.d_cap Z0
          then let buf = [] in
               let cap =
                 if Z.ltb (Z.sub json_minBufferSize (len buf))
                      json_minReadSize
                 then Z.mul (Zpos (XO XH)) json_minBufferSize
                 else json_minBufferSize
               in
               let (p, rd0) =
                 read_full (S (length st.d_reader)) st.d_term st.d_reader
                   (Z.sub cap (len buf)) []
               in
               let (data, rerr0) = p in
               let n0 = len data in
               let buf0 = app buf data in
               let err =
                 if Z.gtb n0 Z0
                 then None
                 else (match rerr0 with
                       | Some r ->
                         (match r with
                          | RUnexpectedEOF -> Some REOF
                          | _ -> rerr0)
                       | None -> rerr0)
               in
               let (rem', ns) = json_skipSpacesN buf0 in
               let dflags' =
                 match json_internalParseFlags pfuel rem' with
                 | Some d -> Z.coq_lor flags d
                 | None -> flags
               in
               read_value f pfuel flags dflags' { d_buffer = buf0; d_cap =
                 cap; d_remain = rem'; d_offset = (Z.add st.d_offset ns);
                 d_err = err; d_reader = rd0; d_term = st.d_term }
          else let buf = st.d_remain in
               let cap = st.d_cap in
               let cap0 =
                 if Z.ltb (Z.sub cap (len buf)) json_minReadSize
                 then Z.mul (Zpos (XO XH)) cap
                 else cap
               in
               let (p, rd0) =
                 read_full (S (length st.d_reader)) st.d_term st.d_reader
                   (Z.sub cap0 (len buf)) []
               in
               let (data, rerr0) = p in
               let n0 = len data in
               let buf0 = app buf data in
               let err =
                 if Z.gtb n0 Z0
                 then None
                 else (match rerr0 with
                       | Some r ->
                         (match r with
                          | RUnexpectedEOF -> Some REOF
                          | _ -> rerr0)
                       | None -> rerr0)
               in
               let (rem', ns) = json_skipSpacesN buf0 in
               let dflags' =
                 match json_internalParseFlags pfuel rem' with
                 | Some d -> Z.coq_lor flags d
                 | None -> flags
               in
               read_value f pfuel flags dflags' { d_buffer = buf0; d_cap =
                 cap0; d_remain = rem'; d_offset = (Z.add st.d_offset ns);
                 d_err = err; d_reader = rd0; d_term = st.d_term }))

(** val decode_all :
    nat -> nat -> nat -> dstate -> bytes list -> z list -> (bytes
    list * dresult) * z list **)

let rec decode_all steps fuel pfuel st acc offs =
  match steps with
  | O -> (((rev acc), DOutOfFuel), (rev offs))
  | S k ->
    let (r, st') = read_value fuel pfuel Z0 Z0 st in
    (match r with
     | DValue v ->
       decode_all k fuel pfuel st' (v :: acc) (st'.d_offset :: offs)
     | _ -> (((rev acc), r), (rev offs)))

type tstate = { t_delim : z; t_value : bytes; t_err : bool; t_depth : 
                z; t_index : z; t_iskey : bool; t_iskey_next : bool;
                t_json : bytes; t_stack : (z * z) list; t_kind : z }

(** val t_init : bytes -> tstate **)

let t_init b =
  { t_delim = Z0; t_value = []; t_err = false; t_depth = Z0; t_index = Z0;
    t_iskey = false; t_iskey_next = false; t_json = b; t_stack = []; t_kind =
    Z0 }

(** val stack_depth : (z * z) list -> z **)

let stack_depth =
  len

(** val stack_index : (z * z) list -> z **)

let stack_index s =
  match rev s with
  | [] -> Z0
  | p :: _ -> let (_, n0) = p in Z.sub n0 (Zpos XH)

(** val stack_top_is : (z * z) list -> z -> bool **)

let stack_top_is s typ =
  match rev s with
  | [] -> false
  | p :: _ -> let (t, _) = p in Z.eqb t typ

(** val stack_pop : (z * z) list -> z -> (z * z) list option **)

let stack_pop s expect =
  match rev s with
  | [] -> None
  | p :: r -> let (t, _) = p in if Z.eqb t expect then Some (rev r) else None

(** val stack_incr : (z * z) list -> (z * z) list **)

let stack_incr s =
  match rev s with
  | [] -> []
  | p :: r -> let (t, n0) = p in rev ((t, (Z.add n0 (Zpos XH))) :: r)

(** val t_next : nat -> z -> tstate -> (bool * tstate) option **)

let t_next pfuel d st =
  if st.t_err
  then Some (false, st)
  else let j = json_skipSpaces st.t_json in
       (match j with
        | [] -> Some (false, (t_init []))
        | c :: _ ->
          let scalar = fun r ->
            match r with
            | Some p ->
              let (p0, e) = p in
              let (p1, k) = p0 in
              let (v, rest) = p1 in
              Some ({ t_delim = Z0; t_value = v; t_err = (negb (isnil e));
              t_depth = st.t_depth; t_index = st.t_index; t_iskey =
              st.t_iskey; t_iskey_next = st.t_iskey_next; t_json = rest;
              t_stack = st.t_stack; t_kind = st.t_kind }, k)
            | None -> None
          in
          let step =
            if Z.eqb c (Zpos (XO (XI (XO (XO (XO XH))))))
            then scalar (json_decoder_parseString pfuel d j)
            else if Z.eqb c (Zpos (XO (XI (XI (XI (XO (XI XH)))))))
                 then scalar (Some (json_decoder_parseNull d j))
                 else if Z.eqb c (Zpos (XO (XO (XI (XO (XI (XI XH)))))))
                      then scalar (Some (json_decoder_parseTrue d j))
                      else if Z.eqb c (Zpos (XO (XI (XI (XO (XO (XI XH)))))))
                           then scalar (Some (json_decoder_parseFalse d j))
                           else if (||)
                                     (Z.eqb c (Zpos (XI (XO (XI (XI (XO
                                       XH)))))))
                                     ((&&)
                                       (Z.leb (Zpos (XO (XO (XO (XO (XI
                                         XH)))))) c)
                                       (Z.leb c (Zpos (XI (XO (XO (XI (XI
                                         XH))))))))
                                then scalar
                                       (json_decoder_parseNumber pfuel d j)
                                else if (||)
                                          ((||)
                                            ((||)
                                              ((||)
                                                ((||)
                                                  (Z.eqb c (Zpos (XI (XI (XO
                                                    (XI (XI (XI XH))))))))
                                                  (Z.eqb c (Zpos (XI (XO (XI
                                                    (XI (XI (XI XH)))))))))
                                                (Z.eqb c (Zpos (XI (XI (XO
                                                  (XI (XI (XO XH)))))))))
                                              (Z.eqb c (Zpos (XI (XO (XI (XI
                                                (XI (XO XH)))))))))
                                            (Z.eqb c (Zpos (XO (XI (XO (XI
                                              (XI XH))))))))
                                          (Z.eqb c (Zpos (XO (XO (XI (XI (XO
                                            XH)))))))
                                     then Some ({ t_delim = c; t_value =
                                            (c :: []); t_err = false;
                                            t_depth = st.t_depth; t_index =
                                            st.t_index; t_iskey = st.t_iskey;
                                            t_iskey_next = st.t_iskey_next;
                                            t_json =
                                            (slice_from j (Zpos XH));
                                            t_stack = st.t_stack; t_kind =
                                            st.t_kind },
                                            (if Z.eqb c (Zpos (XI (XI (XO (XI
                                                  (XI (XI XH)))))))
                                             then json_Object
                                             else if Z.eqb c (Zpos (XI (XI
                                                       (XO (XI (XI (XO
                                                       XH)))))))
                                                  then json_Array
                                                  else Z0))
                                     else Some ({ t_delim = Z0; t_value =
                                            (c :: []); t_err = true;
                                            t_depth = st.t_depth; t_index =
                                            st.t_index; t_iskey = st.t_iskey;
                                            t_iskey_next = st.t_iskey_next;
                                            t_json =
                                            (slice_from j (Zpos XH));
                                            t_stack = st.t_stack; t_kind =
                                            st.t_kind }, Z0)
          in
          (match step with
           | Some p ->
             let (s1, kind) = p in
             let depth = stack_depth s1.t_stack in
             let index = stack_index s1.t_stack in
             let upd0 = fun delim iskey iskn stack err depth0 index0 ->
               { t_delim = delim; t_value = s1.t_value; t_err = err;
               t_depth = depth0; t_index = index0; t_iskey = iskey;
               t_iskey_next = iskn; t_json = s1.t_json; t_stack = stack;
               t_kind = kind }
             in
             let s2 =
               if Z.eqb s1.t_delim Z0
               then ((upd0 Z0 s1.t_iskey_next s1.t_iskey_next s1.t_stack
                       s1.t_err depth index), false)
               else let dl = s1.t_delim in
                    if Z.eqb dl (Zpos (XI (XI (XO (XI (XI (XI XH)))))))
                    then ((upd0 dl false true
                            (app s1.t_stack (((Zpos XH), (Zpos XH)) :: []))
                            s1.t_err depth index), false)
                    else if Z.eqb dl (Zpos (XI (XI (XO (XI (XI (XO XH)))))))
                         then ((upd0 dl false s1.t_iskey_next
                                 (app s1.t_stack ((Z0, (Zpos XH)) :: []))
                                 s1.t_err depth index), false)
                         else if Z.eqb dl (Zpos (XI (XO (XI (XI (XI (XI
                                   XH)))))))
                              then (match stack_pop s1.t_stack (Zpos XH) with
                                    | Some stk ->
                                      ((upd0 dl false false stk false
                                         (Z.sub depth (Zpos XH))
                                         (stack_index stk)), false)
                                    | None ->
                                      ((upd0 dl false false s1.t_stack true
                                         (Z.sub depth (Zpos XH))
                                         (stack_index s1.t_stack)), false))
                              else if Z.eqb dl (Zpos (XI (XO (XI (XI (XI (XO
                                        XH)))))))
                                   then (match stack_pop s1.t_stack Z0 with
                                         | Some stk ->
                                           ((upd0 dl false s1.t_iskey_next
                                              stk false
                                              (Z.sub depth (Zpos XH))
                                              (stack_index stk)), false)
                                         | None ->
                                           ((upd0 dl false s1.t_iskey_next
                                              s1.t_stack true
                                              (Z.sub depth (Zpos XH))
                                              (stack_index s1.t_stack)),
                                             false))
                                   else if Z.eqb dl (Zpos (XO (XI (XO (XI (XI
                                             XH))))))
                                        then ((upd0 dl false false s1.t_stack
                                                s1.t_err depth index), false)
                                        else if Z.eqb (len s1.t_stack) Z0
                                             then ((upd0 dl false
                                                     s1.t_iskey_next
                                                     s1.t_stack true depth
                                                     index), true)
                                             else ((upd0 dl false
                                                     (if stack_top_is
                                                           s1.t_stack (Zpos
                                                           XH)
                                                      then true
                                                      else s1.t_iskey_next)
                                                     (stack_incr s1.t_stack)
                                                     s1.t_err depth index),
                                                    false)
             in
             let (s3, early) = s2 in
             if early
             then Some (false, s3)
             else Some
                    (((&&)
                       ((||) (negb (Z.eqb s3.t_delim Z0))
                         (negb (Z.eqb (len s3.t_value) Z0))) (negb s3.t_err)),
                    s3)
           | None -> None))

type token = { k_value : bytes; k_delim : z; k_depth : z; k_index : z;
               k_iskey : bool; k_kind : z; k_remaining : z }

(** val t_run :
    nat -> nat -> z -> tstate -> token list -> (token list * tstate) option **)

let rec t_run fuel pfuel d st acc =
  match fuel with
  | O -> None
  | S f ->
    (match t_next pfuel d st with
     | Some p ->
       let (b, st') = p in
       if b
       then t_run f pfuel d st' ({ k_value = st'.t_value; k_delim =
              st'.t_delim; k_depth = st'.t_depth; k_index = st'.t_index;
              k_iskey = st'.t_iskey; k_kind = st'.t_kind; k_remaining =
              (len st'.t_json) } :: acc)
       else Some ((rev acc), st')
     | None -> None)

(** val tokenize : bytes -> (token list * tstate) option **)

let tokenize b =
  let pfuel = add (mul (S (S O)) (length b)) (S (S (S (S (S (S (S (S O))))))))
  in
  (match json_internalParseFlags pfuel b with
   | Some d -> t_run (S (length b)) pfuel d (t_init b) []
   | None -> None)

type stoken = { st_value : bytes; st_depth : z; st_index : z;
                st_iskey : bool; st_constrained : bool }

(** val mk_scalar : bytes -> z -> z -> bool -> stoken **)

let mk_scalar v depth index iskey =
  { st_value = v; st_depth = depth; st_index = index; st_iskey = iskey;
    st_constrained = true }

(** val mk_punct : z -> stoken **)

let mk_punct c =
  { st_value = (c :: []); st_depth = Z0; st_index = Z0; st_iskey = false;
    st_constrained = false }

(** val consumed : bytes -> bytes -> bytes **)

let consumed b rest =
  firstn (sub (length b) (length rest)) b

(** val g_tokens :
    nat -> bytes -> z -> z -> bool -> (stoken list * bytes) option **)

let rec g_tokens fuel b depth index iskey =
  match fuel with
  | O -> None
  | S f ->
    (match b with
     | [] ->
       (match g_value (S f) b with
        | Some r ->
          Some (((mk_scalar (consumed b r) depth index iskey) :: []), r)
        | None -> None)
     | z0 :: r ->
       (match z0 with
        | Zpos p ->
          (match p with
           | XI p0 ->
             (match p0 with
              | XI p1 ->
                (match p1 with
                 | XO p2 ->
                   (match p2 with
                    | XI p3 ->
                      (match p3 with
                       | XI p4 ->
                         (match p4 with
                          | XI p5 ->
                            (match p5 with
                             | XH ->
                               let open_ =
                                 mk_scalar ((Zpos (XI (XI (XO (XI (XI (XI
                                   XH))))))) :: []) depth index iskey
                               in
                               (match skip_ws r with
                                | [] ->
                                  let rec members n0 b0 i acc =
                                    match n0 with
                                    | O -> None
                                    | S n' ->
                                      (match b0 with
                                       | [] -> None
                                       | z1 :: k ->
                                         (match z1 with
                                          | Zpos p6 ->
                                            (match p6 with
                                             | XO p7 ->
                                               (match p7 with
                                                | XI p8 ->
                                                  (match p8 with
                                                   | XO p9 ->
                                                     (match p9 with
                                                      | XO p10 ->
                                                        (match p10 with
                                                         | XO p11 ->
                                                           (match p11 with
                                                            | XH ->
                                                              (match 
                                                               g_string k with
                                                               | Some r0 ->
                                                                 let key =
                                                                   mk_scalar
                                                                    (consumed
                                                                    b0 r0)
                                                                    (Z.add
                                                                    depth
                                                                    (Zpos XH))
                                                                    i true
                                                                 in
                                                                 (match 
                                                                  skip_ws r0 with
                                                                  | [] -> None
                                                                  | z2 :: r' ->
                                                                    (match z2 with
                                                                    | Zpos p12 ->
                                                                    (match p12 with
                                                                    | XO p13 ->
                                                                    (match p13 with
                                                                    | XI p14 ->
                                                                    (match p14 with
                                                                    | XO p15 ->
                                                                    (match p15 with
                                                                    | XI p16 ->
                                                                    (match p16 with
                                                                    | XI p17 ->
                                                                    (match p17 with
                                                                    | XH ->
                                                                    (match 
                                                                    g_tokens
                                                                    f
                                                                    (skip_ws
                                                                    r')
                                                                    (Z.add
                                                                    depth
                                                                    (Zpos XH))
                                                                    i false with
                                                                    | Some p18 ->
                                                                    let (
                                                                    ts, r1) =
                                                                    p18
                                                                    in
                                                                    (
                                                                    match 
                                                                    skip_ws r1 with
                                                                    | [] ->
                                                                    None
                                                                    | z3 :: r'0 ->
                                                                    (match z3 with
                                                                    | Zpos p19 ->
                                                                    (match p19 with
                                                                    | XI p20 ->
                                                                    (match p20 with
                                                                    | XO p21 ->
                                                                    (match p21 with
                                                                    | XI p22 ->
                                                                    (match p22 with
                                                                    | XI p23 ->
                                                                    (match p23 with
                                                                    | XI p24 ->
                                                                    (match p24 with
                                                                    | XI p25 ->
                                                                    (match p25 with
                                                                    | XH ->
                                                                    Some
                                                                    ((app acc
                                                                    (app
                                                                    (key :: (
                                                                    (mk_punct
                                                                    (Zpos (XO
                                                                    (XI (XO
                                                                    (XI (XI
                                                                    XH))))))) :: []))
                                                                    (app ts
                                                                    ((mk_punct
                                                                    (Zpos (XI
                                                                    (XO (XI
                                                                    (XI (XI
                                                                    (XI
                                                                    XH)))))))) :: [])))),
                                                                    r'0)
                                                                    | _ ->
                                                                    None)
                                                                    | _ ->
                                                                    None)
                                                                    | _ ->
                                                                    None)
                                                                    | _ ->
                                                                    None)
                                                                    | _ ->
                                                                    None)
                                                                    | _ ->
                                                                    None)
                                                                    | XO p20 ->
                                                                    (match p20 with
                                                                    | XO p21 ->
                                                                    (match p21 with
                                                                    | XI p22 ->
                                                                    (match p22 with
                                                                    | XI p23 ->
                                                                    (match p23 with
                                                                    | XO p24 ->
                                                                    (match p24 with
                                                                    | XH ->
                                                                    members
                                                                    n'
                                                                    (skip_ws
                                                                    r'0)
                                                                    (Z.add i
                                                                    (Zpos XH))
                                                                    (app acc
                                                                    (app
                                                                    (key :: (
                                                                    (mk_punct
                                                                    (Zpos (XO
                                                                    (XI (XO
                                                                    (XI (XI
                                                                    XH))))))) :: []))
                                                                    (app ts
                                                                    ((mk_punct
                                                                    (Zpos (XO
                                                                    (XO (XI
                                                                    (XI (XO
                                                                    XH))))))) :: []))))
                                                                    | _ ->
                                                                    None)
                                                                    | _ ->
                                                                    None)
                                                                    | _ ->
                                                                    None)
                                                                    | _ ->
                                                                    None)
                                                                    | _ ->
                                                                    None)
                                                                    | XH ->
                                                                    None)
                                                                    | _ ->
                                                                    None))
                                                                    | None ->
                                                                    None)
                                                                    | _ ->
                                                                    None)
                                                                    | _ ->
                                                                    None)
                                                                    | _ ->
                                                                    None)
                                                                    | _ ->
                                                                    None)
                                                                    | _ ->
                                                                    None)
                                                                    | _ ->
                                                                    None)
                                                                    | _ ->
                                                                    None))
                                                               | None -> None)
                                                            | _ -> None)
                                                         | _ -> None)
                                                      | _ -> None)
                                                   | _ -> None)
                                                | _ -> None)
                                             | _ -> None)
                                          | _ -> None))
                                  in members f [] Z0 (open_ :: [])
                                | z1 :: r' ->
                                  (match z1 with
                                   | Z0 ->
                                     let rec members n0 b0 i acc =
                                       match n0 with
                                       | O -> None
                                       | S n' ->
                                         (match b0 with
                                          | [] -> None
                                          | z2 :: k ->
                                            (match z2 with
                                             | Zpos p6 ->
                                               (match p6 with
                                                | XO p7 ->
                                                  (match p7 with
                                                   | XI p8 ->
                                                     (match p8 with
                                                      | XO p9 ->
                                                        (match p9 with
                                                         | XO p10 ->
                                                           (match p10 with
                                                            | XO p11 ->
                                                              (match p11 with
                                                               | XH ->
                                                                 (match 
                                                                  g_string k with
                                                                  | Some r0 ->
                                                                    let key =
                                                                    mk_scalar
                                                                    (consumed
                                                                    b0 r0)
                                                                    (Z.add
                                                                    depth
                                                                    (Zpos XH))
                                                                    i true
                                                                    in
                                                                    (
                                                                    match 
                                                                    skip_ws r0 with
                                                                    | [] ->
                                                                    None
                                                                    | z3 :: r'0 ->
                                                                    (match z3 with
                                                                    | Zpos p12 ->
                                                                    (match p12 with
                                                                    | XO p13 ->
                                                                    (match p13 with
                                                                    | XI p14 ->
                                                                    (match p14 with
                                                                    | XO p15 ->
                                                                    (match p15 with
                                                                    | XI p16 ->
                                                                    (match p16 with
                                                                    | XI p17 ->
                                                                    (match p17 with
                                                                    | XH ->
                                                                    (match 
                                                                    g_tokens
                                                                    f
                                                                    (skip_ws
                                                                    r'0)
                                                                    (Z.add
                                                                    depth
                                                                    (Zpos XH))
                                                                    i false with
                                                                    | Some p18 ->
                                                                    let (
                                                                    ts, r1) =
                                                                    p18
                                                                    in
                                                                    (
                                                                    match 
                                                                    skip_ws r1 with
                                                                    | [] ->
                                                                    None
                                                                    | z4 :: r'1 ->
                                                                    (match z4 with
                                                                    | Zpos p19 ->
                                                                    (match p19 with
                                                                    | XI p20 ->
                                                                    (match p20 with
                                                                    | XO p21 ->
                                                                    (match p21 with
                                                                    | XI p22 ->
                                                                    (match p22 with
                                                                    | XI p23 ->
                                                                    (match p23 with
                                                                    | XI p24 ->
                                                                    (match p24 with
                                                                    | XI p25 ->
                                                                    (match p25 with
                                                                    | XH ->
                                                                    Some
                                                                    ((app acc
                                                                    (app
                                                                    (key :: (
                                                                    (mk_punct
                                                                    (Zpos (XO
                                                                    (XI (XO
                                                                    (XI (XI
                                                                    XH))))))) :: []))
                                                                    (app ts
                                                                    ((mk_punct
                                                                    (Zpos (XI
                                                                    (XO (XI
                                                                    (XI (XI
                                                                    (XI
                                                                    XH)))))))) :: [])))),
                                                                    r'1)
                                                                    | _ ->
                                                                    None)
                                                                    | _ ->
                                                                    None)
                                                                    | _ ->
                                                                    None)
                                                                    | _ ->
                                                                    None)
                                                                    | _ ->
                                                                    None)
                                                                    | _ ->
                                                                    None)
                                                                    | XO p20 ->
                                                                    (match p20 with
                                                                    | XO p21 ->
                                                                    (match p21 with
                                                                    | XI p22 ->
                                                                    (match p22 with
                                                                    | XI p23 ->
                                                                    (match p23 with
                                                                    | XO p24 ->
                                                                    (match p24 with
                                                                    | XH ->
                                                                    members
                                                                    n'
                                                                    (skip_ws
                                                                    r'1)
                                                                    (Z.add i
                                                                    (Zpos XH))
                                                                    (app acc
                                                                    (app
                                                                    (key :: (
                                                                    (mk_punct
                                                                    (Zpos (XO
                                                                    (XI (XO
                                                                    (XI (XI
                                                                    XH))))))) :: []))
                                                                    (app ts
                                                                    ((mk_punct
                                                                    (Zpos (XO
                                                                    (XO (XI
                                                                    (XI (XO
                                                                    XH))))))) :: []))))
                                                                    | _ ->
                                                                    None)
                                                                    | _ ->
                                                                    None)
                                                                    | _ ->
                                                                    None)
                                                                    | _ ->
                                                                    None)
                                                                    | _ ->
                                                                    None)
                                                                    | XH ->
                                                                    None)
                                                                    | _ ->
                                                                    None))
                                                                    | None ->
                                                                    None)
                                                                    | _ ->
                                                                    None)
                                                                    | _ ->
                                                                    None)
                                                                    | _ ->
                                                                    None)
                                                                    | _ ->
                                                                    None)
                                                                    | _ ->
                                                                    None)
                                                                    | _ ->
                                                                    None)
                                                                    | _ ->
                                                                    None))
                                                                  | None ->
                                                                    None)
                                                               | _ -> None)
                                                            | _ -> None)
                                                         | _ -> None)
                                                      | _ -> None)
                                                   | _ -> None)
                                                | _ -> None)
                                             | _ -> None))
                                     in members f (Z0 :: r') Z0 (open_ :: [])
                                   | Zpos p6 ->
                                     (match p6 with
                                      | XI p7 ->
                                        (match p7 with
                                         | XI p8 ->
                                           let rec members n0 b0 i acc =
                                             match n0 with
                                             | O -> None
                                             | S n' ->
                                               (match b0 with
                                                | [] -> None
                                                | z2 :: k ->
                                                  (match z2 with
                                                   | Zpos p9 ->
                                                     (match p9 with
                                                      | XO p10 ->
                                                        (match p10 with
                                                         | XI p11 ->
                                                           (match p11 with
                                                            | XO p12 ->
                                                              (match p12 with
                                                               | XO p13 ->
                                                                 (match p13 with
                                                                  | XO p14 ->
                                                                    (match p14 with
                                                                    | XH ->
                                                                    (match 
                                                                    g_string k with
                                                                    | Some r0 ->
                                                                    let key =
                                                                    mk_scalar
                                                                    (consumed
                                                                    b0 r0)
                                                                    (Z.add
                                                                    depth
                                                                    (Zpos XH))
                                                                    i true
                                                                    in
                                                                    (
                                                                    match 
                                                                    skip_ws r0 with
                                                                    | [] ->
                                                                    None
                                                                    | z3 :: r'0 ->
                                                                    (match z3 with
                                                                    | Zpos p15 ->
                                                                    (match p15 with
                                                                    | XO p16 ->
                                                                    (match p16 with
                                                                    | XI p17 ->
                                                                    (match p17 with
                                                                    | XO p18 ->
                                                                    (match p18 with
                                                                    | XI p19 ->
                                                                    (match p19 with
                                                                    | XI p20 ->
                                                                    (match p20 with
                                                                    | XH ->
                                                                    (match 
                                                                    g_tokens
                                                                    f
                                                                    (skip_ws
                                                                    r'0)
                                                                    (Z.add
                                                                    depth
                                                                    (Zpos XH))
                                                                    i false with
                                                                    | Some p21 ->
                                                                    let (
                                                                    ts, r1) =
                                                                    p21
                                                                    in
                                                                    (
                                                                    match 
                                                                    skip_ws r1 with
                                                                    | [] ->
                                                                    None
                                                                    | z4 :: r'1 ->
                                                                    (match z4 with
                                                                    | Zpos p22 ->
                                                                    (match p22 with
                                                                    | XI p23 ->
                                                                    (match p23 with
                                                                    | XO p24 ->
                                                                    (match p24 with
                                                                    | XI p25 ->
                                                                    (match p25 with
                                                                    | XI p26 ->
                                                                    (match p26 with
                                                                    | XI p27 ->
                                                                    (match p27 with
                                                                    | XI p28 ->
                                                                    (match p28 with
                                                                    | XH ->
                                                                    Some
                                                                    ((app acc
                                                                    (app
                                                                    (key :: (
                                                                    (mk_punct
                                                                    (Zpos (XO
                                                                    (XI (XO
                                                                    (XI (XI
                                                                    XH))))))) :: []))
                                                                    (app ts
                                                                    ((mk_punct
                                                                    (Zpos (XI
                                                                    (XO (XI
                                                                    (XI (XI
                                                                    (XI
                                                                    XH)))))))) :: [])))),
                                                                    r'1)
                                                                    | _ ->
                                                                    None)
                                                                    | _ ->
                                                                    None)
                                                                    | _ ->
                                                                    None)
                                                                    | _ ->
                                                                    None)
                                                                    | _ ->
                                                                    None)
                                                                    | _ ->
                                                                    None)
                                                                    | XO p23 ->
                                                                    (match p23 with
                                                                    | XO p24 ->
                                                                    (match p24 with
                                                                    | XI p25 ->
                                                                    (match p25 with
                                                                    | XI p26 ->
                                                                    (match p26 with
                                                                    | XO p27 ->
                                                                    (match p27 with
                                                                    | XH ->
                                                                    members
                                                                    n'
                                                                    (skip_ws
                                                                    r'1)
                                                                    (Z.add i
                                                                    (Zpos XH))
                                                                    (app acc
                                                                    (app
                                                                    (key :: (
                                                                    (mk_punct
                                                                    (Zpos (XO
                                                                    (XI (XO
                                                                    (XI (XI
                                                                    XH))))))) :: []))
                                                                    (app ts
                                                                    ((mk_punct
                                                                    (Zpos (XO
                                                                    (XO (XI
                                                                    (XI (XO
                                                                    XH))))))) :: []))))
                                                                    | _ ->
                                                                    None)
                                                                    | _ ->
                                                                    None)
                                                                    | _ ->
                                                                    None)
                                                                    | _ ->
                                                                    None)
                                                                    | _ ->
                                                                    None)
                                                                    | XH ->
                                                                    None)
                                                                    | _ ->
                                                                    None))
                                                                    | None ->
                                                                    None)
                                                                    | _ ->
                                                                    None)
                                                                    | _ ->
                                                                    None)
                                                                    | _ ->
                                                                    None)
                                                                    | _ ->
                                                                    None)
                                                                    | _ ->
                                                                    None)
                                                                    | _ ->
                                                                    None)
                                                                    | _ ->
                                                                    None))
                                                                    | None ->
                                                                    None)
                                                                    | _ ->
                                                                    None)
                                                                  | _ -> None)
                                                               | _ -> None)
                                                            | _ -> None)
                                                         | _ -> None)
                                                      | _ -> None)
                                                   | _ -> None))
                                           in members f ((Zpos (XI (XI
                                                p8))) :: r') Z0 (open_ :: [])
                                         | XO p8 ->
                                           (match p8 with
                                            | XI p9 ->
                                              (match p9 with
                                               | XI p10 ->
                                                 (match p10 with
                                                  | XI p11 ->
                                                    (match p11 with
                                                     | XI p12 ->
                                                       (match p12 with
                                                        | XI p13 ->
                                                          let rec members n0 b0 i acc =
                                                            match n0 with
                                                            | O -> None
                                                            | S n' ->
                                                              (match b0 with
                                                               | [] -> None
                                                               | z2 :: k ->
                                                                 (match z2 with
                                                                  | Zpos p14 ->
                                                                    (match p14 with
                                                                    | XO p15 ->
                                                                    (match p15 with
                                                                    | XI p16 ->
                                                                    (match p16 with
                                                                    | XO p17 ->
                                                                    (match p17 with
                                                                    | XO p18 ->
                                                                    (match p18 with
                                                                    | XO p19 ->
                                                                    (match p19 with
                                                                    | XH ->
                                                                    (match 
                                                                    g_string k with
                                                                    | Some r0 ->
                                                                    let key =
                                                                    mk_scalar
                                                                    (consumed
                                                                    b0 r0)
                                                                    (Z.add
                                                                    depth
                                                                    (Zpos XH))
                                                                    i true
                                                                    in
                                                                    (
                                                                    match 
                                                                    skip_ws r0 with
                                                                    | [] ->
                                                                    None
                                                                    | z3 :: r'0 ->
                                                                    (match z3 with
                                                                    | Zpos p20 ->
                                                                    (match p20 with
                                                                    | XO p21 ->
                                                                    (match p21 with
                                                                    | XI p22 ->
                                                                    (match p22 with
                                                                    | XO p23 ->
                                                                    (match p23 with
                                                                    | XI p24 ->
                                                                    (match p24 with
                                                                    | XI p25 ->
                                                                    (match p25 with
                                                                    | XH ->
                                                                    (match 
                                                                    g_tokens
                                                                    f
                                                                    (skip_ws
                                                                    r'0)
                                                                    (Z.add
                                                                    depth
                                                                    (Zpos XH))
                                                                    i false with
                                                                    | Some p26 ->
                                                                    let (
                                                                    ts, r1) =
                                                                    p26
                                                                    in
                                                                    (
                                                                    match 
                                                                    skip_ws r1 with
                                                                    | [] ->
                                                                    None
                                                                    | z4 :: r'1 ->
                                                                    (match z4 with
                                                                    | Zpos p27 ->
                                                                    (match p27 with
                                                                    | XI p28 ->
                                                                    (match p28 with
                                                                    | XO p29 ->
                                                                    (match p29 with
                                                                    | XI p30 ->
                                                                    (match p30 with
                                                                    | XI p31 ->
                                                                    (match p31 with
                                                                    | XI p32 ->
                                                                    (match p32 with
                                                                    | XI p33 ->
                                                                    (match p33 with
                                                                    | XH ->
                                                                    Some
                                                                    ((app acc
                                                                    (app
                                                                    (key :: (
                                                                    (mk_punct
                                                                    (Zpos (XO
                                                                    (XI (XO
                                                                    (XI (XI
                                                                    XH))))))) :: []))
                                                                    (app ts
                                                                    ((mk_punct
                                                                    (Zpos (XI
                                                                    (XO (XI
                                                                    (XI (XI
                                                                    (XI
                                                                    XH)))))))) :: [])))),
                                                                    r'1)
                                                                    | _ ->
                                                                    None)
                                                                    | _ ->
                                                                    None)
                                                                    | _ ->
                                                                    None)
                                                                    | _ ->
                                                                    None)
                                                                    | _ ->
                                                                    None)
                                                                    | _ ->
                                                                    None)
                                                                    | XO p28 ->
                                                                    (match p28 with
                                                                    | XO p29 ->
                                                                    (match p29 with
                                                                    | XI p30 ->
                                                                    (match p30 with
                                                                    | XI p31 ->
                                                                    (match p31 with
                                                                    | XO p32 ->
                                                                    (match p32 with
                                                                    | XH ->
                                                                    members
                                                                    n'
                                                                    (skip_ws
                                                                    r'1)
                                                                    (Z.add i
                                                                    (Zpos XH))
                                                                    (app acc
                                                                    (app
                                                                    (key :: (
                                                                    (mk_punct
                                                                    (Zpos (XO
                                                                    (XI (XO
                                                                    (XI (XI
                                                                    XH))))))) :: []))
                                                                    (app ts
                                                                    ((mk_punct
                                                                    (Zpos (XO
                                                                    (XO (XI
                                                                    (XI (XO
                                                                    XH))))))) :: []))))
                                                                    | _ ->
                                                                    None)
                                                                    | _ ->
                                                                    None)
                                                                    | _ ->
                                                                    None)
                                                                    | _ ->
                                                                    None)
                                                                    | _ ->
                                                                    None)
                                                                    | XH ->
                                                                    None)
                                                                    | _ ->
                                                                    None))
                                                                    | None ->
                                                                    None)
                                                                    | _ ->
                                                                    None)
                                                                    | _ ->
                                                                    None)
                                                                    | _ ->
                                                                    None)
                                                                    | _ ->
                                                                    None)
                                                                    | _ ->
                                                                    None)
                                                                    | _ ->
                                                                    None)
                                                                    | _ ->
                                                                    None))
                                                                    | None ->
                                                                    None)
                                                                    | _ ->
                                                                    None)
                                                                    | _ ->
                                                                    None)
                                                                    | _ ->
                                                                    None)
                                                                    | _ ->
                                                                    None)
                                                                    | _ ->
                                                                    None)
                                                                    | _ ->
                                                                    None)
                                                                  | _ -> None))
                                                          in members f ((Zpos
                                                               (XI (XO (XI
                                                               (XI (XI (XI
                                                               (XI
                                                               p13)))))))) :: r')
                                                               Z0
                                                               (open_ :: [])
                                                        | XO p13 ->
                                                          let rec members n0 b0 i acc =
                                                            match n0 with
                                                            | O -> None
                                                            | S n' ->
                                                              (match b0 with
                                                               | [] -> None
                                                               | z2 :: k ->
                                                                 (match z2 with
                                                                  | Zpos p14 ->
                                                                    (match p14 with
                                                                    | XO p15 ->
                                                                    (match p15 with
                                                                    | XI p16 ->
                                                                    (match p16 with
                                                                    | XO p17 ->
                                                                    (match p17 with
                                                                    | XO p18 ->
                                                                    (match p18 with
                                                                    | XO p19 ->
                                                                    (match p19 with
                                                                    | XH ->
                                                                    (match 
                                                                    g_string k with
                                                                    | Some r0 ->
                                                                    let key =
                                                                    mk_scalar
                                                                    (consumed
                                                                    b0 r0)
                                                                    (Z.add
                                                                    depth
                                                                    (Zpos XH))
                                                                    i true
                                                                    in
                                                                    (
                                                                    match 
                                                                    skip_ws r0 with
                                                                    | [] ->
                                                                    None
                                                                    | z3 :: r'0 ->
                                                                    (match z3 with
                                                                    | Zpos p20 ->
                                                                    (match p20 with
                                                                    | XO p21 ->
                                                                    (match p21 with
                                                                    | XI p22 ->
                                                                    (match p22 with
                                                                    | XO p23 ->
                                                                    (match p23 with
                                                                    | XI p24 ->
                                                                    (match p24 with
                                                                    | XI p25 ->
                                                                    (match p25 with
                                                                    | XH ->
                                                                    (match 
                                                                    g_tokens
                                                                    f
                                                                    (skip_ws
                                                                    r'0)
                                                                    (Z.add
                                                                    depth
                                                                    (Zpos XH))
                                                                    i false with
                                                                    | Some p26 ->
                                                                    let (
                                                                    ts, r1) =
                                                                    p26
                                                                    in
                                                                    (
                                                                    match 
                                                                    skip_ws r1 with
                                                                    | [] ->
                                                                    None
                                                                    | z4 :: r'1 ->
                                                                    (match z4 with
                                                                    | Zpos p27 ->
                                                                    (match p27 with
                                                                    | XI p28 ->
                                                                    (match p28 with
                                                                    | XO p29 ->
                                                                    (match p29 with
                                                                    | XI p30 ->
                                                                    (match p30 with
                                                                    | XI p31 ->
                                                                    (match p31 with
                                                                    | XI p32 ->
                                                                    (match p32 with
                                                                    | XI p33 ->
                                                                    (match p33 with
                                                                    | XH ->
                                                                    Some
                                                                    ((app acc
                                                                    (app
                                                                    (key :: (
                                                                    (mk_punct
                                                                    (Zpos (XO
                                                                    (XI (XO
                                                                    (XI (XI
                                                                    XH))))))) :: []))
                                                                    (app ts
                                                                    ((mk_punct
                                                                    (Zpos (XI
                                                                    (XO (XI
                                                                    (XI (XI
                                                                    (XI
                                                                    XH)))))))) :: [])))),
                                                                    r'1)
                                                                    | _ ->
                                                                    None)
                                                                    | _ ->
                                                                    None)
                                                                    | _ ->
                                                                    None)
                                                                    | _ ->
                                                                    None)
                                                                    | _ ->
                                                                    None)
                                                                    | _ ->
                                                                    None)
                                                                    | XO p28 ->
                                                                    (match p28 with
                                                                    | XO p29 ->
                                                                    (match p29 with
                                                                    | XI p30 ->
                                                                    (match p30 with
                                                                    | XI p31 ->
                                                                    (match p31 with
                                                                    | XO p32 ->
                                                                    (match p32 with
                                                                    | XH ->
                                                                    members
                                                                    n'
                                                                    (skip_ws
                                                                    r'1)
                                                                    (Z.add i
                                                                    (Zpos XH))
                                                                    (app acc
                                                                    (app
                                                                    (key :: (
                                                                    (mk_punct
                                                                    (Zpos (XO
                                                                    (XI (XO
                                                                    (XI (XI
                                                                    XH))))))) :: []))
                                                                    (app ts
                                                                    ((mk_punct
                                                                    (Zpos (XO
                                                                    (XO (XI
                                                                    (XI (XO
                                                                    XH))))))) :: []))))
                                                                    | _ ->
                                                                    None)
                                                                    | _ ->
                                                                    None)
                                                                    | _ ->
                                                                    None)
                                                                    | _ ->
                                                                    None)
                                                                    | _ ->
                                                                    None)
                                                                    | XH ->
                                                                    None)
                                                                    | _ ->
                                                                    None))
                                                                    | None ->
                                                                    None)
                                                                    | _ ->
                                                                    None)
                                                                    | _ ->
                                                                    None)
                                                                    | _ ->
                                                                    None)
                                                                    | _ ->
                                                                    None)
                                                                    | _ ->
                                                                    None)
                                                                    | _ ->
                                                                    None)
                                                                    | _ ->
                                                                    None))
                                                                    | None ->
                                                                    None)
                                                                    | _ ->
                                                                    None)
                                                                    | _ ->
                                                                    None)
                                                                    | _ ->
                                                                    None)
                                                                    | _ ->
                                                                    None)
                                                                    | _ ->
                                                                    None)
                                                                    | _ ->
                                                                    None)
                                                                  | _ -> None))
                                                          in members f ((Zpos
                                                               (XI (XO (XI
                                                               (XI (XI (XI
                                                               (XO
                                                               p13)))))))) :: r')
                                                               Z0
                                                               (open_ :: [])
                                                        | XH ->
                                                          Some
                                                            ((open_ :: (
                                                            (mk_punct (Zpos
                                                              (XI (XO (XI (XI
                                                              (XI (XI
                                                              XH)))))))) :: [])),
                                                            r'))
                                                     | XO p12 ->
                                                       let rec members n0 b0 i acc =
                                                         match n0 with
                                                         | O -> None
                                                         | S n' ->
                                                           (match b0 with
                                                            | [] -> None
                                                            | z2 :: k ->
                                                              (match z2 with
                                                               | Zpos p13 ->
                                                                 (match p13 with
                                                                  | XO p14 ->
                                                                    (match p14 with
                                                                    | XI p15 ->
                                                                    (match p15 with
                                                                    | XO p16 ->
                                                                    (match p16 with
                                                                    | XO p17 ->
                                                                    (match p17 with
                                                                    | XO p18 ->
                                                                    (match p18 with
                                                                    | XH ->
                                                                    (match 
                                                                    g_string k with
                                                                    | Some r0 ->
                                                                    let key =
                                                                    mk_scalar
                                                                    (consumed
                                                                    b0 r0)
                                                                    (Z.add
                                                                    depth
                                                                    (Zpos XH))
                                                                    i true
                                                                    in
                                                                    (
                                                                    match 
                                                                    skip_ws r0 with
                                                                    | [] ->
                                                                    None
                                                                    | z3 :: r'0 ->
                                                                    (match z3 with
                                                                    | Zpos p19 ->
                                                                    (match p19 with
                                                                    | XO p20 ->
                                                                    (match p20 with
                                                                    | XI p21 ->
                                                                    (match p21 with
                                                                    | XO p22 ->
                                                                    (match p22 with
                                                                    | XI p23 ->
                                                                    (match p23 with
                                                                    | XI p24 ->
                                                                    (match p24 with
                                                                    | XH ->
                                                                    (match 
                                                                    g_tokens
                                                                    f
                                                                    (skip_ws
                                                                    r'0)
                                                                    (Z.add
                                                                    depth
                                                                    (Zpos XH))
                                                                    i false with
                                                                    | Some p25 ->
                                                                    let (
                                                                    ts, r1) =
                                                                    p25
                                                                    in
                                                                    (
                                                                    match 
                                                                    skip_ws r1 with
                                                                    | [] ->
                                                                    None
                                                                    | z4 :: r'1 ->
                                                                    (match z4 with
                                                                    | Zpos p26 ->
                                                                    (match p26 with
                                                                    | XI p27 ->
                                                                    (match p27 with
                                                                    | XO p28 ->
                                                                    (match p28 with
                                                                    | XI p29 ->
                                                                    (match p29 with
                                                                    | XI p30 ->
                                                                    (match p30 with
                                                                    | XI p31 ->
                                                                    (match p31 with
                                                                    | XI p32 ->
                                                                    (match p32 with
                                                                    | XH ->
                                                                    Some
                                                                    ((app acc
                                                                    (app
                                                                    (key :: (
                                                                    (mk_punct
                                                                    (Zpos (XO
                                                                    (XI (XO
                                                                    (XI (XI
                                                                    XH))))))) :: []))
                                                                    (app ts
                                                                    ((mk_punct
                                                                    (Zpos (XI
                                                                    (XO (XI
                                                                    (XI (XI
                                                                    (XI
                                                                    XH)))))))) :: [])))),
                                                                    r'1)
                                                                    | _ ->
                                                                    None)
                                                                    | _ ->
                                                                    None)
                                                                    | _ ->
                                                                    None)
                                                                    | _ ->
                                                                    None)
                                                                    | _ ->
                                                                    None)
                                                                    | _ ->
                                                                    None)
                                                                    | XO p27 ->
                                                                    (match p27 with
                                                                    | XO p28 ->
                                                                    (match p28 with
                                                                    | XI p29 ->
                                                                    (match p29 with
                                                                    | XI p30 ->
                                                                    (match p30 with
                                                                    | XO p31 ->
                                                                    (match p31 with
                                                                    | XH ->
                                                                    members
                                                                    n'
                                                                    (skip_ws
                                                                    r'1)
                                                                    (Z.add i
                                                                    (Zpos XH))
                                                                    (app acc
                                                                    (app
                                                                    (key :: (
                                                                    (mk_punct
                                                                    (Zpos (XO
                                                                    (XI (XO
                                                                    (XI (XI
                                                                    XH))))))) :: []))
                                                                    (app ts
                                                                    ((mk_punct
                                                                    (Zpos (XO
                                                                    (XO (XI
                                                                    (XI (XO
                                                                    XH))))))) :: []))))
                                                                    | _ ->
                                                                    None)
                                                                    | _ ->
                                                                    None)
                                                                    | _ ->
                                                                    None)
                                                                    | _ ->
                                                                    None)
                                                                    | _ ->
                                                                    None)
                                                                    | XH ->
                                                                    None)
                                                                    | _ ->
                                                                    None))
                                                                    | None ->
                                                                    None)
                                                                    | _ ->
                                                                    None)
                                                                    | _ ->
                                                                    None)
                                                                    | _ ->
                                                                    None)
                                                                    | _ ->
                                                                    None)
                                                                    | _ ->
                                                                    None)
                                                                    | _ ->
                                                                    None)
                                                                    | _ ->
                                                                    None))
                                                                    | None ->
                                                                    None)
                                                                    | _ ->
                                                                    None)
                                                                    | _ ->
                                                                    None)
                                                                    | _ ->
                                                                    None)
                                                                    | _ ->
                                                                    None)
                                                                    | _ ->
                                                                    None)
                                                                  | _ -> None)
                                                               | _ -> None))
                                                       in members f ((Zpos
                                                            (XI (XO (XI (XI
                                                            (XI (XO
                                                            p12))))))) :: r')
                                                            Z0 (open_ :: [])
                                                     | XH ->
                                                       let rec members n0 b0 i acc =
                                                         match n0 with
                                                         | O -> None
                                                         | S n' ->
                                                           (match b0 with
                                                            | [] -> None
                                                            | z2 :: k ->
                                                              (match z2 with
                                                               | Zpos p12 ->
                                                                 (match p12 with
                                                                  | XO p13 ->
                                                                    (match p13 with
                                                                    | XI p14 ->
                                                                    (match p14 with
                                                                    | XO p15 ->
                                                                    (match p15 with
                                                                    | XO p16 ->
                                                                    (match p16 with
                                                                    | XO p17 ->
                                                                    (match p17 with
                                                                    | XH ->
                                                                    (match 
                                                                    g_string k with
                                                                    | Some r0 ->
                                                                    let key =
                                                                    mk_scalar
                                                                    (consumed
                                                                    b0 r0)
                                                                    (Z.add
                                                                    depth
                                                                    (Zpos XH))
                                                                    i true
                                                                    in
                                                                    (
                                                                    match 
                                                                    skip_ws r0 with
                                                                    | [] ->
                                                                    None
                                                                    | z3 :: r'0 ->
                                                                    (match z3 with
                                                                    | Zpos p18 ->
                                                                    (match p18 with
                                                                    | XO p19 ->
                                                                    (match p19 with
                                                                    | XI p20 ->
                                                                    (match p20 with
                                                                    | XO p21 ->
                                                                    (match p21 with
                                                                    | XI p22 ->
                                                                    (match p22 with
                                                                    | XI p23 ->
                                                                    (match p23 with
                                                                    | XH ->
                                                                    (match 
                                                                    g_tokens
                                                                    f
                                                                    (skip_ws
                                                                    r'0)
                                                                    (Z.add
                                                                    depth
                                                                    (Zpos XH))
                                                                    i false with
                                                                    | Some p24 ->
                                                                    let (
                                                                    ts, r1) =
                                                                    p24
                                                                    in
                                                                    (
                                                                    match 
                                                                    skip_ws r1 with
                                                                    | [] ->
                                                                    None
                                                                    | z4 :: r'1 ->
                                                                    (match z4 with
                                                                    | Zpos p25 ->
                                                                    (match p25 with
                                                                    | XI p26 ->
                                                                    (match p26 with
                                                                    | XO p27 ->
                                                                    (match p27 with
                                                                    | XI p28 ->
                                                                    (match p28 with
                                                                    | XI p29 ->
                                                                    (match p29 with
                                                                    | XI p30 ->
                                                                    (match p30 with
                                                                    | XI p31 ->
                                                                    (match p31 with
                                                                    | XH ->
                                                                    Some
                                                                    ((app acc
                                                                    (app
                                                                    (key :: (
                                                                    (mk_punct
                                                                    (Zpos (XO
                                                                    (XI (XO
                                                                    (XI (XI
                                                                    XH))))))) :: []))
                                                                    (app ts
                                                                    ((mk_punct
                                                                    (Zpos (XI
                                                                    (XO (XI
                                                                    (XI (XI
                                                                    (XI
                                                                    XH)))))))) :: [])))),
                                                                    r'1)
                                                                    | _ ->
                                                                    None)
                                                                    | _ ->
                                                                    None)
                                                                    | _ ->
                                                                    None)
                                                                    | _ ->
                                                                    None)
                                                                    | _ ->
                                                                    None)
                                                                    | _ ->
                                                                    None)
                                                                    | XO p26 ->
                                                                    (match p26 with
                                                                    | XO p27 ->
                                                                    (match p27 with
                                                                    | XI p28 ->
                                                                    (match p28 with
                                                                    | XI p29 ->
                                                                    (match p29 with
                                                                    | XO p30 ->
                                                                    (match p30 with
                                                                    | XH ->
                                                                    members
                                                                    n'
                                                                    (skip_ws
                                                                    r'1)
                                                                    (Z.add i
                                                                    (Zpos XH))
                                                                    (app acc
                                                                    (app
                                                                    (key :: (
                                                                    (mk_punct
                                                                    (Zpos (XO
                                                                    (XI (XO
                                                                    (XI (XI
                                                                    XH))))))) :: []))
                                                                    (app ts
                                                                    ((mk_punct
                                                                    (Zpos (XO
                                                                    (XO (XI
                                                                    (XI (XO
                                                                    XH))))))) :: []))))
                                                                    | _ ->
                                                                    None)
                                                                    | _ ->
                                                                    None)
                                                                    | _ ->
                                                                    None)
                                                                    | _ ->
                                                                    None)
                                                                    | _ ->
                                                                    None)
                                                                    | XH ->
                                                                    None)
                                                                    | _ ->
                                                                    None))
                                                                    | None ->
                                                                    None)
                                                                    | _ ->
                                                                    None)
                                                                    | _ ->
                                                                    None)
                                                                    | _ ->
                                                                    None)
                                                                    | _ ->
                                                                    None)
                                                                    | _ ->
                                                                    None)
                                                                    | _ ->
                                                                    None)
                                                                    | _ ->
                                                                    None))
                                                                    | None ->
                                                                    None)
                                                                    | _ ->
                                                                    None)
                                                                    | _ ->
                                                                    None)
                                                                    | _ ->
                                                                    None)
                                                                    | _ ->
                                                                    None)
                                                                    | _ ->
                                                                    None)
                                                                  | _ -> None)
                                                               | _ -> None))
                                                       in members f ((Zpos
                                                            (XI (XO (XI (XI
                                                            (XI
                                                            XH)))))) :: r')
                                                            Z0 (open_ :: []))
                                                  | XO p11 ->
                                                    let rec members n0 b0 i acc =
                                                      match n0 with
                                                      | O -> None
                                                      | S n' ->
                                                        (match b0 with
                                                         | [] -> None
                                                         | z2 :: k ->
                                                           (match z2 with
                                                            | Zpos p12 ->
                                                              (match p12 with
                                                               | XO p13 ->
                                                                 (match p13 with
                                                                  | XI p14 ->
                                                                    (match p14 with
                                                                    | XO p15 ->
                                                                    (match p15 with
                                                                    | XO p16 ->
                                                                    (match p16 with
                                                                    | XO p17 ->
                                                                    (match p17 with
                                                                    | XH ->
                                                                    (match 
                                                                    g_string k with
                                                                    | Some r0 ->
                                                                    let key =
                                                                    mk_scalar
                                                                    (consumed
                                                                    b0 r0)
                                                                    (Z.add
                                                                    depth
                                                                    (Zpos XH))
                                                                    i true
                                                                    in
                                                                    (
                                                                    match 
                                                                    skip_ws r0 with
                                                                    | [] ->
                                                                    None
                                                                    | z3 :: r'0 ->
                                                                    (match z3 with
                                                                    | Zpos p18 ->
                                                                    (match p18 with
                                                                    | XO p19 ->
                                                                    (match p19 with
                                                                    | XI p20 ->
                                                                    (match p20 with
                                                                    | XO p21 ->
                                                                    (match p21 with
                                                                    | XI p22 ->
                                                                    (match p22 with
                                                                    | XI p23 ->
                                                                    (match p23 with
                                                                    | XH ->
                                                                    (match 
                                                                    g_tokens
                                                                    f
                                                                    (skip_ws
                                                                    r'0)
                                                                    (Z.add
                                                                    depth
                                                                    (Zpos XH))
                                                                    i false with
                                                                    | Some p24 ->
                                                                    let (
                                                                    ts, r1) =
                                                                    p24
                                                                    in
                                                                    (
                                                                    match 
                                                                    skip_ws r1 with
                                                                    | [] ->
                                                                    None
                                                                    | z4 :: r'1 ->
                                                                    (match z4 with
                                                                    | Zpos p25 ->
                                                                    (match p25 with
                                                                    | XI p26 ->
                                                                    (match p26 with
                                                                    | XO p27 ->
                                                                    (match p27 with
                                                                    | XI p28 ->
                                                                    (match p28 with
                                                                    | XI p29 ->
                                                                    (match p29 with
                                                                    | XI p30 ->
                                                                    (match p30 with
                                                                    | XI p31 ->
                                                                    (match p31 with
                                                                    | XH ->
                                                                    Some
                                                                    ((app acc
                                                                    (app
                                                                    (key :: (
                                                                    (mk_punct
                                                                    (Zpos (XO
                                                                    (XI (XO
                                                                    (XI (XI
                                                                    XH))))))) :: []))
                                                                    (app ts
                                                                    ((mk_punct
                                                                    (Zpos (XI
                                                                    (XO (XI
                                                                    (XI (XI
                                                                    (XI
                                                                    XH)))))))) :: [])))),
                                                                    r'1)
                                                                    | _ ->
                                                                    None)
                                                                    | _ ->
                                                                    None)
                                                                    | _ ->
                                                                    None)
                                                                    | _ ->
                                                                    None)
                                                                    | _ ->
                                                                    None)
                                                                    | _ ->
                                                                    None)
                                                                    | XO p26 ->
                                                                    (match p26 with
                                                                    | XO p27 ->
                                                                    (match p27 with
                                                                    | XI p28 ->
                                                                    (match p28 with
                                                                    | XI p29 ->
                                                                    (match p29 with
                                                                    | XO p30 ->
                                                                    (match p30 with
                                                                    | XH ->
                                                                    members
                                                                    n'
                                                                    (skip_ws
                                                                    r'1)
                                                                    (Z.add i
                                                                    (Zpos XH))
                                                                    (app acc
                                                                    (app
                                                                    (key :: (
                                                                    (mk_punct
                                                                    (Zpos (XO
                                                                    (XI (XO
                                                                    (XI (XI
                                                                    XH))))))) :: []))
                                                                    (app ts
                                                                    ((mk_punct
                                                                    (Zpos (XO
                                                                    (XO (XI
                                                                    (XI (XO
                                                                    XH))))))) :: []))))
                                                                    | _ ->
                                                                    None)
                                                                    | _ ->
                                                                    None)
                                                                    | _ ->
                                                                    None)
                                                                    | _ ->
                                                                    None)
                                                                    | _ ->
                                                                    None)
                                                                    | XH ->
                                                                    None)
                                                                    | _ ->
                                                                    None))
                                                                    | None ->
                                                                    None)
                                                                    | _ ->
                                                                    None)
                                                                    | _ ->
                                                                    None)
                                                                    | _ ->
                                                                    None)
                                                                    | _ ->
                                                                    None)
                                                                    | _ ->
                                                                    None)
                                                                    | _ ->
                                                                    None)
                                                                    | _ ->
                                                                    None))
                                                                    | None ->
                                                                    None)
                                                                    | _ ->
                                                                    None)
                                                                    | _ ->
                                                                    None)
                                                                    | _ ->
                                                                    None)
                                                                    | _ ->
                                                                    None)
                                                                  | _ -> None)
                                                               | _ -> None)
                                                            | _ -> None))
                                                    in members f ((Zpos (XI
                                                         (XO (XI (XI (XO
                                                         p11)))))) :: r') Z0
                                                         (open_ :: [])
                                                  | XH ->
                                                    let rec members n0 b0 i acc =
                                                      match n0 with
                                                      | O -> None
                                                      | S n' ->
                                                        (match b0 with
                                                         | [] -> None
                                                         | z2 :: k ->
                                                           (match z2 with
                                                            | Zpos p11 ->
                                                              (match p11 with
                                                               | XO p12 ->
                                                                 (match p12 with
                                                                  | XI p13 ->
                                                                    (match p13 with
                                                                    | XO p14 ->
                                                                    (match p14 with
                                                                    | XO p15 ->
                                                                    (match p15 with
                                                                    | XO p16 ->
                                                                    (match p16 with
                                                                    | XH ->
                                                                    (match 
                                                                    g_string k with
                                                                    | Some r0 ->
                                                                    let key =
                                                                    mk_scalar
                                                                    (consumed
                                                                    b0 r0)
                                                                    (Z.add
                                                                    depth
                                                                    (Zpos XH))
                                                                    i true
                                                                    in
                                                                    (
                                                                    match 
                                                                    skip_ws r0 with
                                                                    | [] ->
                                                                    None
                                                                    | z3 :: r'0 ->
                                                                    (match z3 with
                                                                    | Zpos p17 ->
                                                                    (match p17 with
                                                                    | XO p18 ->
                                                                    (match p18 with
                                                                    | XI p19 ->
                                                                    (match p19 with
                                                                    | XO p20 ->
                                                                    (match p20 with
                                                                    | XI p21 ->
                                                                    (match p21 with
                                                                    | XI p22 ->
                                                                    (match p22 with
                                                                    | XH ->
                                                                    (match 
                                                                    g_tokens
                                                                    f
                                                                    (skip_ws
                                                                    r'0)
                                                                    (Z.add
                                                                    depth
                                                                    (Zpos XH))
                                                                    i false with
                                                                    | Some p23 ->
                                                                    let (
                                                                    ts, r1) =
                                                                    p23
                                                                    in
                                                                    (
                                                                    match 
                                                                    skip_ws r1 with
                                                                    | [] ->
                                                                    None
                                                                    | z4 :: r'1 ->
                                                                    (match z4 with
                                                                    | Zpos p24 ->
                                                                    (match p24 with
                                                                    | XI p25 ->
                                                                    (match p25 with
                                                                    | XO p26 ->
                                                                    (match p26 with
                                                                    | XI p27 ->
                                                                    (match p27 with
                                                                    | XI p28 ->
                                                                    (match p28 with
                                                                    | XI p29 ->
                                                                    (match p29 with
                                                                    | XI p30 ->
                                                                    (match p30 with
                                                                    | XH ->
                                                                    Some
                                                                    ((app acc
                                                                    (app
                                                                    (key :: (
                                                                    (mk_punct
                                                                    (Zpos (XO
                                                                    (XI (XO
                                                                    (XI (XI
                                                                    XH))))))) :: []))
                                                                    (app ts
                                                                    ((mk_punct
                                                                    (Zpos (XI
                                                                    (XO (XI
                                                                    (XI (XI
                                                                    (XI
                                                                    XH)))))))) :: [])))),
                                                                    r'1)
                                                                    | _ ->
                                                                    None)
                                                                    | _ ->
                                                                    None)
                                                                    | _ ->
                                                                    None)
                                                                    | _ ->
                                                                    None)
                                                                    | _ ->
                                                                    None)
                                                                    | _ ->
                                                                    None)
                                                                    | XO p25 ->
                                                                    (match p25 with
                                                                    | XO p26 ->
                                                                    (match p26 with
                                                                    | XI p27 ->
                                                                    (match p27 with
                                                                    | XI p28 ->
                                                                    (match p28 with
                                                                    | XO p29 ->
                                                                    (match p29 with
                                                                    | XH ->
                                                                    members
                                                                    n'
                                                                    (skip_ws
                                                                    r'1)
                                                                    (Z.add i
                                                                    (Zpos XH))
                                                                    (app acc
                                                                    (app
                                                                    (key :: (
                                                                    (mk_punct
                                                                    (Zpos (XO
                                                                    (XI (XO
                                                                    (XI (XI
                                                                    XH))))))) :: []))
                                                                    (app ts
                                                                    ((mk_punct
                                                                    (Zpos (XO
                                                                    (XO (XI
                                                                    (XI (XO
                                                                    XH))))))) :: []))))
                                                                    | _ ->
                                                                    None)
                                                                    | _ ->
                                                                    None)
                                                                    | _ ->
                                                                    None)
                                                                    | _ ->
                                                                    None)
                                                                    | _ ->
                                                                    None)
                                                                    | XH ->
                                                                    None)
                                                                    | _ ->
                                                                    None))
                                                                    | None ->
                                                                    None)
                                                                    | _ ->
                                                                    None)
                                                                    | _ ->
                                                                    None)
                                                                    | _ ->
                                                                    None)
                                                                    | _ ->
                                                                    None)
                                                                    | _ ->
                                                                    None)
                                                                    | _ ->
                                                                    None)
                                                                    | _ ->
                                                                    None))
                                                                    | None ->
                                                                    None)
                                                                    | _ ->
                                                                    None)
                                                                    | _ ->
                                                                    None)
                                                                    | _ ->
                                                                    None)
                                                                    | _ ->
                                                                    None)
                                                                  | _ -> None)
                                                               | _ -> None)
                                                            | _ -> None))
                                                    in members f ((Zpos (XI
                                                         (XO (XI (XI
                                                         XH))))) :: r') Z0
                                                         (open_ :: []))
                                               | XO p10 ->
                                                 let rec members n0 b0 i acc =
                                                   match n0 with
                                                   | O -> None
                                                   | S n' ->
                                                     (match b0 with
                                                      | [] -> None
                                                      | z2 :: k ->
                                                        (match z2 with
                                                         | Zpos p11 ->
                                                           (match p11 with
                                                            | XO p12 ->
                                                              (match p12 with
                                                               | XI p13 ->
                                                                 (match p13 with
                                                                  | XO p14 ->
                                                                    (match p14 with
                                                                    | XO p15 ->
                                                                    (match p15 with
                                                                    | XO p16 ->
                                                                    (match p16 with
                                                                    | XH ->
                                                                    (match 
                                                                    g_string k with
                                                                    | Some r0 ->
                                                                    let key =
                                                                    mk_scalar
                                                                    (consumed
                                                                    b0 r0)
                                                                    (Z.add
                                                                    depth
                                                                    (Zpos XH))
                                                                    i true
                                                                    in
                                                                    (
                                                                    match 
                                                                    skip_ws r0 with
                                                                    | [] ->
                                                                    None
                                                                    | z3 :: r'0 ->
                                                                    (match z3 with
                                                                    | Zpos p17 ->
                                                                    (match p17 with
                                                                    | XO p18 ->
                                                                    (match p18 with
                                                                    | XI p19 ->
                                                                    (match p19 with
                                                                    | XO p20 ->
                                                                    (match p20 with
                                                                    | XI p21 ->
                                                                    (match p21 with
                                                                    | XI p22 ->
                                                                    (match p22 with
                                                                    | XH ->
                                                                    (match 
                                                                    g_tokens
                                                                    f
                                                                    (skip_ws
                                                                    r'0)
                                                                    (Z.add
                                                                    depth
                                                                    (Zpos XH))
                                                                    i false with
                                                                    | Some p23 ->
                                                                    let (
                                                                    ts, r1) =
                                                                    p23
                                                                    in
                                                                    (
                                                                    match 
                                                                    skip_ws r1 with
                                                                    | [] ->
                                                                    None
                                                                    | z4 :: r'1 ->
                                                                    (match z4 with
                                                                    | Zpos p24 ->
                                                                    (match p24 with
                                                                    | XI p25 ->
                                                                    (match p25 with
                                                                    | XO p26 ->
                                                                    (match p26 with
                                                                    | XI p27 ->
                                                                    (match p27 with
                                                                    | XI p28 ->
                                                                    (match p28 with
                                                                    | XI p29 ->
                                                                    (match p29 with
                                                                    | XI p30 ->
                                                                    (match p30 with
                                                                    | XH ->
                                                                    Some
                                                                    ((app acc
                                                                    (app
                                                                    (key :: (
                                                                    (mk_punct
                                                                    (Zpos (XO
                                                                    (XI (XO
                                                                    (XI (XI
                                                                    XH))))))) :: []))
                                                                    (app ts
                                                                    ((mk_punct
                                                                    (Zpos (XI
                                                                    (XO (XI
                                                                    (XI (XI
                                                                    (XI
                                                                    XH)))))))) :: [])))),
                                                                    r'1)
                                                                    | _ ->
                                                                    None)
                                                                    | _ ->
                                                                    None)
                                                                    | _ ->
                                                                    None)
                                                                    | _ ->
                                                                    None)
                                                                    | _ ->
                                                                    None)
                                                                    | _ ->
                                                                    None)
                                                                    | XO p25 ->
                                                                    (match p25 with
                                                                    | XO p26 ->
                                                                    (match p26 with
                                                                    | XI p27 ->
                                                                    (match p27 with
                                                                    | XI p28 ->
                                                                    (match p28 with
                                                                    | XO p29 ->
                                                                    (match p29 with
                                                                    | XH ->
                                                                    members
                                                                    n'
                                                                    (skip_ws
                                                                    r'1)
                                                                    (Z.add i
                                                                    (Zpos XH))
                                                                    (app acc
                                                                    (app
                                                                    (key :: (
                                                                    (mk_punct
                                                                    (Zpos (XO
                                                                    (XI (XO
                                                                    (XI (XI
                                                                    XH))))))) :: []))
                                                                    (app ts
                                                                    ((mk_punct
                                                                    (Zpos (XO
                                                                    (XO (XI
                                                                    (XI (XO
                                                                    XH))))))) :: []))))
                                                                    | _ ->
                                                                    None)
                                                                    | _ ->
                                                                    None)
                                                                    | _ ->
                                                                    None)
                                                                    | _ ->
                                                                    None)
                                                                    | _ ->
                                                                    None)
                                                                    | XH ->
                                                                    None)
                                                                    | _ ->
                                                                    None))
                                                                    | None ->
                                                                    None)
                                                                    | _ ->
                                                                    None)
                                                                    | _ ->
                                                                    None)
                                                                    | _ ->
                                                                    None)
                                                                    | _ ->
                                                                    None)
                                                                    | _ ->
                                                                    None)
                                                                    | _ ->
                                                                    None)
                                                                    | _ ->
                                                                    None))
                                                                    | None ->
                                                                    None)
                                                                    | _ ->
                                                                    None)
                                                                    | _ ->
                                                                    None)
                                                                    | _ ->
                                                                    None)
                                                                  | _ -> None)
                                                               | _ -> None)
                                                            | _ -> None)
                                                         | _ -> None))
                                                 in members f ((Zpos (XI (XO
                                                      (XI (XO p10))))) :: r')
                                                      Z0 (open_ :: [])
                                               | XH ->
                                                 let rec members n0 b0 i acc =
                                                   match n0 with
                                                   | O -> None
                                                   | S n' ->
                                                     (match b0 with
                                                      | [] -> None
                                                      | z2 :: k ->
                                                        (match z2 with
                                                         | Zpos p10 ->
                                                           (match p10 with
                                                            | XO p11 ->
                                                              (match p11 with
                                                               | XI p12 ->
                                                                 (match p12 with
                                                                  | XO p13 ->
                                                                    (match p13 with
                                                                    | XO p14 ->
                                                                    (match p14 with
                                                                    | XO p15 ->
                                                                    (match p15 with
                                                                    | XH ->
                                                                    (match 
                                                                    g_string k with
                                                                    | Some r0 ->
                                                                    let key =
                                                                    mk_scalar
                                                                    (consumed
                                                                    b0 r0)
                                                                    (Z.add
                                                                    depth
                                                                    (Zpos XH))
                                                                    i true
                                                                    in
                                                                    (
                                                                    match 
                                                                    skip_ws r0 with
                                                                    | [] ->
                                                                    None
                                                                    | z3 :: r'0 ->
                                                                    (match z3 with
                                                                    | Zpos p16 ->
                                                                    (match p16 with
                                                                    | XO p17 ->
                                                                    (match p17 with
                                                                    | XI p18 ->
                                                                    (match p18 with
                                                                    | XO p19 ->
                                                                    (match p19 with
                                                                    | XI p20 ->
                                                                    (match p20 with
                                                                    | XI p21 ->
                                                                    (match p21 with
                                                                    | XH ->
                                                                    (match 
                                                                    g_tokens
                                                                    f
                                                                    (skip_ws
                                                                    r'0)
                                                                    (Z.add
                                                                    depth
                                                                    (Zpos XH))
                                                                    i false with
                                                                    | Some p22 ->
                                                                    let (
                                                                    ts, r1) =
                                                                    p22
                                                                    in
                                                                    (
                                                                    match 
                                                                    skip_ws r1 with
                                                                    | [] ->
                                                                    None
                                                                    | z4 :: r'1 ->
                                                                    (match z4 with
                                                                    | Zpos p23 ->
                                                                    (match p23 with
                                                                    | XI p24 ->
                                                                    (match p24 with
                                                                    | XO p25 ->
                                                                    (match p25 with
                                                                    | XI p26 ->
                                                                    (match p26 with
                                                                    | XI p27 ->
                                                                    (match p27 with
                                                                    | XI p28 ->
                                                                    (match p28 with
                                                                    | XI p29 ->
                                                                    (match p29 with
                                                                    | XH ->
                                                                    Some
                                                                    ((app acc
                                                                    (app
                                                                    (key :: (
                                                                    (mk_punct
                                                                    (Zpos (XO
                                                                    (XI (XO
                                                                    (XI (XI
                                                                    XH))))))) :: []))
                                                                    (app ts
                                                                    ((mk_punct
                                                                    (Zpos (XI
                                                                    (XO (XI
                                                                    (XI (XI
                                                                    (XI
                                                                    XH)))))))) :: [])))),
                                                                    r'1)
                                                                    | _ ->
                                                                    None)
                                                                    | _ ->
                                                                    None)
                                                                    | _ ->
                                                                    None)
                                                                    | _ ->
                                                                    None)
                                                                    | _ ->
                                                                    None)
                                                                    | _ ->
                                                                    None)
                                                                    | XO p24 ->
                                                                    (match p24 with
                                                                    | XO p25 ->
                                                                    (match p25 with
                                                                    | XI p26 ->
                                                                    (match p26 with
                                                                    | XI p27 ->
                                                                    (match p27 with
                                                                    | XO p28 ->
                                                                    (match p28 with
                                                                    | XH ->
                                                                    members
                                                                    n'
                                                                    (skip_ws
                                                                    r'1)
                                                                    (Z.add i
                                                                    (Zpos XH))
                                                                    (app acc
                                                                    (app
                                                                    (key :: (
                                                                    (mk_punct
                                                                    (Zpos (XO
                                                                    (XI (XO
                                                                    (XI (XI
                                                                    XH))))))) :: []))
                                                                    (app ts
                                                                    ((mk_punct
                                                                    (Zpos (XO
                                                                    (XO (XI
                                                                    (XI (XO
                                                                    XH))))))) :: []))))
                                                                    | _ ->
                                                                    None)
                                                                    | _ ->
                                                                    None)
                                                                    | _ ->
                                                                    None)
                                                                    | _ ->
                                                                    None)
                                                                    | _ ->
                                                                    None)
                                                                    | XH ->
                                                                    None)
                                                                    | _ ->
                                                                    None))
                                                                    | None ->
                                                                    None)
                                                                    | _ ->
                                                                    None)
                                                                    | _ ->
                                                                    None)
                                                                    | _ ->
                                                                    None)
                                                                    | _ ->
                                                                    None)
                                                                    | _ ->
                                                                    None)
                                                                    | _ ->
                                                                    None)
                                                                    | _ ->
                                                                    None))
                                                                    | None ->
                                                                    None)
                                                                    | _ ->
                                                                    None)
                                                                    | _ ->
                                                                    None)
                                                                    | _ ->
                                                                    None)
                                                                  | _ -> None)
                                                               | _ -> None)
                                                            | _ -> None)
                                                         | _ -> None))
                                                 in members f ((Zpos (XI (XO
                                                      (XI XH)))) :: r') Z0
                                                      (open_ :: []))
                                            | XO p9 ->
                                              let rec members n0 b0 i acc =
                                                match n0 with
                                                | O -> None
                                                | S n' ->
                                                  (match b0 with
                                                   | [] -> None
                                                   | z2 :: k ->
                                                     (match z2 with
                                                      | Zpos p10 ->
                                                        (match p10 with
                                                         | XO p11 ->
                                                           (match p11 with
                                                            | XI p12 ->
                                                              (match p12 with
                                                               | XO p13 ->
                                                                 (match p13 with
                                                                  | XO p14 ->
                                                                    (match p14 with
                                                                    | XO p15 ->
                                                                    (match p15 with
                                                                    | XH ->
                                                                    (match 
                                                                    g_string k with
                                                                    | Some r0 ->
                                                                    let key =
                                                                    mk_scalar
                                                                    (consumed
                                                                    b0 r0)
                                                                    (Z.add
                                                                    depth
                                                                    (Zpos XH))
                                                                    i true
                                                                    in
                                                                    (
                                                                    match 
                                                                    skip_ws r0 with
                                                                    | [] ->
                                                                    None
                                                                    | z3 :: r'0 ->
                                                                    (match z3 with
                                                                    | Zpos p16 ->
                                                                    (match p16 with
                                                                    | XO p17 ->
                                                                    (match p17 with
                                                                    | XI p18 ->
                                                                    (match p18 with
                                                                    | XO p19 ->
                                                                    (match p19 with
                                                                    | XI p20 ->
                                                                    (match p20 with
                                                                    | XI p21 ->
                                                                    (match p21 with
                                                                    | XH ->
                                                                    (match 
                                                                    g_tokens
                                                                    f
                                                                    (skip_ws
                                                                    r'0)
                                                                    (Z.add
                                                                    depth
                                                                    (Zpos XH))
                                                                    i false with
                                                                    | Some p22 ->
                                                                    let (
                                                                    ts, r1) =
                                                                    p22
                                                                    in
                                                                    (
                                                                    match 
                                                                    skip_ws r1 with
                                                                    | [] ->
                                                                    None
                                                                    | z4 :: r'1 ->
                                                                    (match z4 with
                                                                    | Zpos p23 ->
                                                                    (match p23 with
                                                                    | XI p24 ->
                                                                    (match p24 with
                                                                    | XO p25 ->
                                                                    (match p25 with
                                                                    | XI p26 ->
                                                                    (match p26 with
                                                                    | XI p27 ->
                                                                    (match p27 with
                                                                    | XI p28 ->
                                                                    (match p28 with
                                                                    | XI p29 ->
                                                                    (match p29 with
                                                                    | XH ->
                                                                    Some
                                                                    ((app acc
                                                                    (app
                                                                    (key :: (
                                                                    (mk_punct
                                                                    (Zpos (XO
                                                                    (XI (XO
                                                                    (XI (XI
                                                                    XH))))))) :: []))
                                                                    (app ts
                                                                    ((mk_punct
                                                                    (Zpos (XI
                                                                    (XO (XI
                                                                    (XI (XI
                                                                    (XI
                                                                    XH)))))))) :: [])))),
                                                                    r'1)
                                                                    | _ ->
                                                                    None)
                                                                    | _ ->
                                                                    None)
                                                                    | _ ->
                                                                    None)
                                                                    | _ ->
                                                                    None)
                                                                    | _ ->
                                                                    None)
                                                                    | _ ->
                                                                    None)
                                                                    | XO p24 ->
                                                                    (match p24 with
                                                                    | XO p25 ->
                                                                    (match p25 with
                                                                    | XI p26 ->
                                                                    (match p26 with
                                                                    | XI p27 ->
                                                                    (match p27 with
                                                                    | XO p28 ->
                                                                    (match p28 with
                                                                    | XH ->
                                                                    members
                                                                    n'
                                                                    (skip_ws
                                                                    r'1)
                                                                    (Z.add i
                                                                    (Zpos XH))
                                                                    (app acc
                                                                    (app
                                                                    (key :: (
                                                                    (mk_punct
                                                                    (Zpos (XO
                                                                    (XI (XO
                                                                    (XI (XI
                                                                    XH))))))) :: []))
                                                                    (app ts
                                                                    ((mk_punct
                                                                    (Zpos (XO
                                                                    (XO (XI
                                                                    (XI (XO
                                                                    XH))))))) :: []))))
                                                                    | _ ->
                                                                    None)
                                                                    | _ ->
                                                                    None)
                                                                    | _ ->
                                                                    None)
                                                                    | _ ->
                                                                    None)
                                                                    | _ ->
                                                                    None)
                                                                    | XH ->
                                                                    None)
                                                                    | _ ->
                                                                    None))
                                                                    | None ->
                                                                    None)
                                                                    | _ ->
                                                                    None)
                                                                    | _ ->
                                                                    None)
                                                                    | _ ->
                                                                    None)
                                                                    | _ ->
                                                                    None)
                                                                    | _ ->
                                                                    None)
                                                                    | _ ->
                                                                    None)
                                                                    | _ ->
                                                                    None))
                                                                    | None ->
                                                                    None)
                                                                    | _ ->
                                                                    None)
                                                                    | _ ->
                                                                    None)
                                                                  | _ -> None)
                                                               | _ -> None)
                                                            | _ -> None)
                                                         | _ -> None)
                                                      | _ -> None))
                                              in members f ((Zpos (XI (XO (XO
                                                   p9)))) :: r') Z0
                                                   (open_ :: [])
                                            | XH ->
                                              let rec members n0 b0 i acc =
                                                match n0 with
                                                | O -> None
                                                | S n' ->
                                                  (match b0 with
                                                   | [] -> None
                                                   | z2 :: k ->
                                                     (match z2 with
                                                      | Zpos p9 ->
                                                        (match p9 with
                                                         | XO p10 ->
                                                           (match p10 with
                                                            | XI p11 ->
                                                              (match p11 with
                                                               | XO p12 ->
                                                                 (match p12 with
                                                                  | XO p13 ->
                                                                    (match p13 with
                                                                    | XO p14 ->
                                                                    (match p14 with
                                                                    | XH ->
                                                                    (match 
                                                                    g_string k with
                                                                    | Some r0 ->
                                                                    let key =
                                                                    mk_scalar
                                                                    (consumed
                                                                    b0 r0)
                                                                    (Z.add
                                                                    depth
                                                                    (Zpos XH))
                                                                    i true
                                                                    in
                                                                    (
                                                                    match 
                                                                    skip_ws r0 with
                                                                    | [] ->
                                                                    None
                                                                    | z3 :: r'0 ->
                                                                    (match z3 with
                                                                    | Zpos p15 ->
                                                                    (match p15 with
                                                                    | XO p16 ->
                                                                    (match p16 with
                                                                    | XI p17 ->
                                                                    (match p17 with
                                                                    | XO p18 ->
                                                                    (match p18 with
                                                                    | XI p19 ->
                                                                    (match p19 with
                                                                    | XI p20 ->
                                                                    (match p20 with
                                                                    | XH ->
                                                                    (match 
                                                                    g_tokens
                                                                    f
                                                                    (skip_ws
                                                                    r'0)
                                                                    (Z.add
                                                                    depth
                                                                    (Zpos XH))
                                                                    i false with
                                                                    | Some p21 ->
                                                                    let (
                                                                    ts, r1) =
                                                                    p21
                                                                    in
                                                                    (
                                                                    match 
                                                                    skip_ws r1 with
                                                                    | [] ->
                                                                    None
                                                                    | z4 :: r'1 ->
                                                                    (match z4 with
                                                                    | Zpos p22 ->
                                                                    (match p22 with
                                                                    | XI p23 ->
                                                                    (match p23 with
                                                                    | XO p24 ->
                                                                    (match p24 with
                                                                    | XI p25 ->
                                                                    (match p25 with
                                                                    | XI p26 ->
                                                                    (match p26 with
                                                                    | XI p27 ->
                                                                    (match p27 with
                                                                    | XI p28 ->
                                                                    (match p28 with
                                                                    | XH ->
                                                                    Some
                                                                    ((app acc
                                                                    (app
                                                                    (key :: (
                                                                    (mk_punct
                                                                    (Zpos (XO
                                                                    (XI (XO
                                                                    (XI (XI
                                                                    XH))))))) :: []))
                                                                    (app ts
                                                                    ((mk_punct
                                                                    (Zpos (XI
                                                                    (XO (XI
                                                                    (XI (XI
                                                                    (XI
                                                                    XH)))))))) :: [])))),
                                                                    r'1)
                                                                    | _ ->
                                                                    None)
                                                                    | _ ->
                                                                    None)
                                                                    | _ ->
                                                                    None)
                                                                    | _ ->
                                                                    None)
                                                                    | _ ->
                                                                    None)
                                                                    | _ ->
                                                                    None)
                                                                    | XO p23 ->
                                                                    (match p23 with
                                                                    | XO p24 ->
                                                                    (match p24 with
                                                                    | XI p25 ->
                                                                    (match p25 with
                                                                    | XI p26 ->
                                                                    (match p26 with
                                                                    | XO p27 ->
                                                                    (match p27 with
                                                                    | XH ->
                                                                    members
                                                                    n'
                                                                    (skip_ws
                                                                    r'1)
                                                                    (Z.add i
                                                                    (Zpos XH))
                                                                    (app acc
                                                                    (app
                                                                    (key :: (
                                                                    (mk_punct
                                                                    (Zpos (XO
                                                                    (XI (XO
                                                                    (XI (XI
                                                                    XH))))))) :: []))
                                                                    (app ts
                                                                    ((mk_punct
                                                                    (Zpos (XO
                                                                    (XO (XI
                                                                    (XI (XO
                                                                    XH))))))) :: []))))
                                                                    | _ ->
                                                                    None)
                                                                    | _ ->
                                                                    None)
                                                                    | _ ->
                                                                    None)
                                                                    | _ ->
                                                                    None)
                                                                    | _ ->
                                                                    None)
                                                                    | XH ->
                                                                    None)
                                                                    | _ ->
                                                                    None))
                                                                    | None ->
                                                                    None)
                                                                    | _ ->
                                                                    None)
                                                                    | _ ->
                                                                    None)
                                                                    | _ ->
                                                                    None)
                                                                    | _ ->
                                                                    None)
                                                                    | _ ->
                                                                    None)
                                                                    | _ ->
                                                                    None)
                                                                    | _ ->
                                                                    None))
                                                                    | None ->
                                                                    None)
                                                                    | _ ->
                                                                    None)
                                                                    | _ ->
                                                                    None)
                                                                  | _ -> None)
                                                               | _ -> None)
                                                            | _ -> None)
                                                         | _ -> None)
                                                      | _ -> None))
                                              in members f ((Zpos (XI (XO
                                                   XH))) :: r') Z0
                                                   (open_ :: []))
                                         | XH ->
                                           let rec members n0 b0 i acc =
                                             match n0 with
                                             | O -> None
                                             | S n' ->
                                               (match b0 with
                                                | [] -> None
                                                | z2 :: k ->
                                                  (match z2 with
                                                   | Zpos p8 ->
                                                     (match p8 with
                                                      | XO p9 ->
                                                        (match p9 with
                                                         | XI p10 ->
                                                           (match p10 with
                                                            | XO p11 ->
                                                              (match p11 with
                                                               | XO p12 ->
                                                                 (match p12 with
                                                                  | XO p13 ->
                                                                    (match p13 with
                                                                    | XH ->
                                                                    (match 
                                                                    g_string k with
                                                                    | Some r0 ->
                                                                    let key =
                                                                    mk_scalar
                                                                    (consumed
                                                                    b0 r0)
                                                                    (Z.add
                                                                    depth
                                                                    (Zpos XH))
                                                                    i true
                                                                    in
                                                                    (
                                                                    match 
                                                                    skip_ws r0 with
                                                                    | [] ->
                                                                    None
                                                                    | z3 :: r'0 ->
                                                                    (match z3 with
                                                                    | Zpos p14 ->
                                                                    (match p14 with
                                                                    | XO p15 ->
                                                                    (match p15 with
                                                                    | XI p16 ->
                                                                    (match p16 with
                                                                    | XO p17 ->
                                                                    (match p17 with
                                                                    | XI p18 ->
                                                                    (match p18 with
                                                                    | XI p19 ->
                                                                    (match p19 with
                                                                    | XH ->
                                                                    (match 
                                                                    g_tokens
                                                                    f
                                                                    (skip_ws
                                                                    r'0)
                                                                    (Z.add
                                                                    depth
                                                                    (Zpos XH))
                                                                    i false with
                                                                    | Some p20 ->
                                                                    let (
                                                                    ts, r1) =
                                                                    p20
                                                                    in
                                                                    (
                                                                    match 
                                                                    skip_ws r1 with
                                                                    | [] ->
                                                                    None
                                                                    | z4 :: r'1 ->
                                                                    (match z4 with
                                                                    | Zpos p21 ->
                                                                    (match p21 with
                                                                    | XI p22 ->
                                                                    (match p22 with
                                                                    | XO p23 ->
                                                                    (match p23 with
                                                                    | XI p24 ->
                                                                    (match p24 with
                                                                    | XI p25 ->
                                                                    (match p25 with
                                                                    | XI p26 ->
                                                                    (match p26 with
                                                                    | XI p27 ->
                                                                    (match p27 with
                                                                    | XH ->
                                                                    Some
                                                                    ((app acc
                                                                    (app
                                                                    (key :: (
                                                                    (mk_punct
                                                                    (Zpos (XO
                                                                    (XI (XO
                                                                    (XI (XI
                                                                    XH))))))) :: []))
                                                                    (app ts
                                                                    ((mk_punct
                                                                    (Zpos (XI
                                                                    (XO (XI
                                                                    (XI (XI
                                                                    (XI
                                                                    XH)))))))) :: [])))),
                                                                    r'1)
                                                                    | _ ->
                                                                    None)
                                                                    | _ ->
                                                                    None)
                                                                    | _ ->
                                                                    None)
                                                                    | _ ->
                                                                    None)
                                                                    | _ ->
                                                                    None)
                                                                    | _ ->
                                                                    None)
                                                                    | XO p22 ->
                                                                    (match p22 with
                                                                    | XO p23 ->
                                                                    (match p23 with
                                                                    | XI p24 ->
                                                                    (match p24 with
                                                                    | XI p25 ->
                                                                    (match p25 with
                                                                    | XO p26 ->
                                                                    (match p26 with
                                                                    | XH ->
                                                                    members
                                                                    n'
                                                                    (skip_ws
                                                                    r'1)
                                                                    (Z.add i
                                                                    (Zpos XH))
                                                                    (app acc
                                                                    (app
                                                                    (key :: (
                                                                    (mk_punct
                                                                    (Zpos (XO
                                                                    (XI (XO
                                                                    (XI (XI
                                                                    XH))))))) :: []))
                                                                    (app ts
                                                                    ((mk_punct
                                                                    (Zpos (XO
                                                                    (XO (XI
                                                                    (XI (XO
                                                                    XH))))))) :: []))))
                                                                    | _ ->
                                                                    None)
                                                                    | _ ->
                                                                    None)
                                                                    | _ ->
                                                                    None)
                                                                    | _ ->
                                                                    None)
                                                                    | _ ->
                                                                    None)
                                                                    | XH ->
                                                                    None)
                                                                    | _ ->
                                                                    None))
                                                                    | None ->
                                                                    None)
                                                                    | _ ->
                                                                    None)
                                                                    | _ ->
                                                                    None)
                                                                    | _ ->
                                                                    None)
                                                                    | _ ->
                                                                    None)
                                                                    | _ ->
                                                                    None)
                                                                    | _ ->
                                                                    None)
                                                                    | _ ->
                                                                    None))
                                                                    | None ->
                                                                    None)
                                                                    | _ ->
                                                                    None)
                                                                  | _ -> None)
                                                               | _ -> None)
                                                            | _ -> None)
                                                         | _ -> None)
                                                      | _ -> None)
                                                   | _ -> None))
                                           in members f ((Zpos (XI
                                                XH)) :: r') Z0 (open_ :: []))
                                      | XO p7 ->
                                        let rec members n0 b0 i acc =
                                          match n0 with
                                          | O -> None
                                          | S n' ->
                                            (match b0 with
                                             | [] -> None
                                             | z2 :: k ->
                                               (match z2 with
                                                | Zpos p8 ->
                                                  (match p8 with
                                                   | XO p9 ->
                                                     (match p9 with
                                                      | XI p10 ->
                                                        (match p10 with
                                                         | XO p11 ->
                                                           (match p11 with
                                                            | XO p12 ->
                                                              (match p12 with
                                                               | XO p13 ->
                                                                 (match p13 with
                                                                  | XH ->
                                                                    (match 
                                                                    g_string k with
                                                                    | Some r0 ->
                                                                    let key =
                                                                    mk_scalar
                                                                    (consumed
                                                                    b0 r0)
                                                                    (Z.add
                                                                    depth
                                                                    (Zpos XH))
                                                                    i true
                                                                    in
                                                                    (
                                                                    match 
                                                                    skip_ws r0 with
                                                                    | [] ->
                                                                    None
                                                                    | z3 :: r'0 ->
                                                                    (match z3 with
                                                                    | Zpos p14 ->
                                                                    (match p14 with
                                                                    | XO p15 ->
                                                                    (match p15 with
                                                                    | XI p16 ->
                                                                    (match p16 with
                                                                    | XO p17 ->
                                                                    (match p17 with
                                                                    | XI p18 ->
                                                                    (match p18 with
                                                                    | XI p19 ->
                                                                    (match p19 with
                                                                    | XH ->
                                                                    (match 
                                                                    g_tokens
                                                                    f
                                                                    (skip_ws
                                                                    r'0)
                                                                    (Z.add
                                                                    depth
                                                                    (Zpos XH))
                                                                    i false with
                                                                    | Some p20 ->
                                                                    let (
                                                                    ts, r1) =
                                                                    p20
                                                                    in
                                                                    (
                                                                    match 
                                                                    skip_ws r1 with
                                                                    | [] ->
                                                                    None
                                                                    | z4 :: r'1 ->
                                                                    (match z4 with
                                                                    | Zpos p21 ->
                                                                    (match p21 with
                                                                    | XI p22 ->
                                                                    (match p22 with
                                                                    | XO p23 ->
                                                                    (match p23 with
                                                                    | XI p24 ->
                                                                    (match p24 with
                                                                    | XI p25 ->
                                                                    (match p25 with
                                                                    | XI p26 ->
                                                                    (match p26 with
                                                                    | XI p27 ->
                                                                    (match p27 with
                                                                    | XH ->
                                                                    Some
                                                                    ((app acc
                                                                    (app
                                                                    (key :: (
                                                                    (mk_punct
                                                                    (Zpos (XO
                                                                    (XI (XO
                                                                    (XI (XI
                                                                    XH))))))) :: []))
                                                                    (app ts
                                                                    ((mk_punct
                                                                    (Zpos (XI
                                                                    (XO (XI
                                                                    (XI (XI
                                                                    (XI
                                                                    XH)))))))) :: [])))),
                                                                    r'1)
                                                                    | _ ->
                                                                    None)
                                                                    | _ ->
                                                                    None)
                                                                    | _ ->
                                                                    None)
                                                                    | _ ->
                                                                    None)
                                                                    | _ ->
                                                                    None)
                                                                    | _ ->
                                                                    None)
                                                                    | XO p22 ->
                                                                    (match p22 with
                                                                    | XO p23 ->
                                                                    (match p23 with
                                                                    | XI p24 ->
                                                                    (match p24 with
                                                                    | XI p25 ->
                                                                    (match p25 with
                                                                    | XO p26 ->
                                                                    (match p26 with
                                                                    | XH ->
                                                                    members
                                                                    n'
                                                                    (skip_ws
                                                                    r'1)
                                                                    (Z.add i
                                                                    (Zpos XH))
                                                                    (app acc
                                                                    (app
                                                                    (key :: (
                                                                    (mk_punct
                                                                    (Zpos (XO
                                                                    (XI (XO
                                                                    (XI (XI
                                                                    XH))))))) :: []))
                                                                    (app ts
                                                                    ((mk_punct
                                                                    (Zpos (XO
                                                                    (XO (XI
                                                                    (XI (XO
                                                                    XH))))))) :: []))))
                                                                    | _ ->
                                                                    None)
                                                                    | _ ->
                                                                    None)
                                                                    | _ ->
                                                                    None)
                                                                    | _ ->
                                                                    None)
                                                                    | _ ->
                                                                    None)
                                                                    | XH ->
                                                                    None)
                                                                    | _ ->
                                                                    None))
                                                                    | None ->
                                                                    None)
                                                                    | _ ->
                                                                    None)
                                                                    | _ ->
                                                                    None)
                                                                    | _ ->
                                                                    None)
                                                                    | _ ->
                                                                    None)
                                                                    | _ ->
                                                                    None)
                                                                    | _ ->
                                                                    None)
                                                                    | _ ->
                                                                    None))
                                                                    | None ->
                                                                    None)
                                                                  | _ -> None)
                                                               | _ -> None)
                                                            | _ -> None)
                                                         | _ -> None)
                                                      | _ -> None)
                                                   | _ -> None)
                                                | _ -> None))
                                        in members f ((Zpos (XO p7)) :: r')
                                             Z0 (open_ :: [])
                                      | XH ->
                                        let rec members n0 b0 i acc =
                                          match n0 with
                                          | O -> None
                                          | S n' ->
                                            (match b0 with
                                             | [] -> None
                                             | z2 :: k ->
                                               (match z2 with
                                                | Zpos p7 ->
                                                  (match p7 with
                                                   | XO p8 ->
                                                     (match p8 with
                                                      | XI p9 ->
                                                        (match p9 with
                                                         | XO p10 ->
                                                           (match p10 with
                                                            | XO p11 ->
                                                              (match p11 with
                                                               | XO p12 ->
                                                                 (match p12 with
                                                                  | XH ->
                                                                    (match 
                                                                    g_string k with
                                                                    | Some r0 ->
                                                                    let key =
                                                                    mk_scalar
                                                                    (consumed
                                                                    b0 r0)
                                                                    (Z.add
                                                                    depth
                                                                    (Zpos XH))
                                                                    i true
                                                                    in
                                                                    (
                                                                    match 
                                                                    skip_ws r0 with
                                                                    | [] ->
                                                                    None
                                                                    | z3 :: r'0 ->
                                                                    (match z3 with
                                                                    | Zpos p13 ->
                                                                    (match p13 with
                                                                    | XO p14 ->
                                                                    (match p14 with
                                                                    | XI p15 ->
                                                                    (match p15 with
                                                                    | XO p16 ->
                                                                    (match p16 with
                                                                    | XI p17 ->
                                                                    (match p17 with
                                                                    | XI p18 ->
                                                                    (match p18 with
                                                                    | XH ->
                                                                    (match 
                                                                    g_tokens
                                                                    f
                                                                    (skip_ws
                                                                    r'0)
                                                                    (Z.add
                                                                    depth
                                                                    (Zpos XH))
                                                                    i false with
                                                                    | Some p19 ->
                                                                    let (
                                                                    ts, r1) =
                                                                    p19
                                                                    in
                                                                    (
                                                                    match 
                                                                    skip_ws r1 with
                                                                    | [] ->
                                                                    None
                                                                    | z4 :: r'1 ->
                                                                    (match z4 with
                                                                    | Zpos p20 ->
                                                                    (match p20 with
                                                                    | XI p21 ->
                                                                    (match p21 with
                                                                    | XO p22 ->
                                                                    (match p22 with
                                                                    | XI p23 ->
                                                                    (match p23 with
                                                                    | XI p24 ->
                                                                    (match p24 with
                                                                    | XI p25 ->
                                                                    (match p25 with
                                                                    | XI p26 ->
                                                                    (match p26 with
                                                                    | XH ->
                                                                    Some
                                                                    ((app acc
                                                                    (app
                                                                    (key :: (
                                                                    (mk_punct
                                                                    (Zpos (XO
                                                                    (XI (XO
                                                                    (XI (XI
                                                                    XH))))))) :: []))
                                                                    (app ts
                                                                    ((mk_punct
                                                                    (Zpos (XI
                                                                    (XO (XI
                                                                    (XI (XI
                                                                    (XI
                                                                    XH)))))))) :: [])))),
                                                                    r'1)
                                                                    | _ ->
                                                                    None)
                                                                    | _ ->
                                                                    None)
                                                                    | _ ->
                                                                    None)
                                                                    | _ ->
                                                                    None)
                                                                    | _ ->
                                                                    None)
                                                                    | _ ->
                                                                    None)
                                                                    | XO p21 ->
                                                                    (match p21 with
                                                                    | XO p22 ->
                                                                    (match p22 with
                                                                    | XI p23 ->
                                                                    (match p23 with
                                                                    | XI p24 ->
                                                                    (match p24 with
                                                                    | XO p25 ->
                                                                    (match p25 with
                                                                    | XH ->
                                                                    members
                                                                    n'
                                                                    (skip_ws
                                                                    r'1)
                                                                    (Z.add i
                                                                    (Zpos XH))
                                                                    (app acc
                                                                    (app
                                                                    (key :: (
                                                                    (mk_punct
                                                                    (Zpos (XO
                                                                    (XI (XO
                                                                    (XI (XI
                                                                    XH))))))) :: []))
                                                                    (app ts
                                                                    ((mk_punct
                                                                    (Zpos (XO
                                                                    (XO (XI
                                                                    (XI (XO
                                                                    XH))))))) :: []))))
                                                                    | _ ->
                                                                    None)
                                                                    | _ ->
                                                                    None)
                                                                    | _ ->
                                                                    None)
                                                                    | _ ->
                                                                    None)
                                                                    | _ ->
                                                                    None)
                                                                    | XH ->
                                                                    None)
                                                                    | _ ->
                                                                    None))
                                                                    | None ->
                                                                    None)
                                                                    | _ ->
                                                                    None)
                                                                    | _ ->
                                                                    None)
                                                                    | _ ->
                                                                    None)
                                                                    | _ ->
                                                                    None)
                                                                    | _ ->
                                                                    None)
                                                                    | _ ->
                                                                    None)
                                                                    | _ ->
                                                                    None))
                                                                    | None ->
                                                                    None)
                                                                  | _ -> None)
                                                               | _ -> None)
                                                            | _ -> None)
                                                         | _ -> None)
                                                      | _ -> None)
                                                   | _ -> None)
                                                | _ -> None))
                                        in members f ((Zpos XH) :: r') Z0
                                             (open_ :: []))
                                   | Zneg p6 ->
                                     let rec members n0 b0 i acc =
                                       match n0 with
                                       | O -> None
                                       | S n' ->
                                         (match b0 with
                                          | [] -> None
                                          | z2 :: k ->
                                            (match z2 with
                                             | Zpos p7 ->
                                               (match p7 with
                                                | XO p8 ->
                                                  (match p8 with
                                                   | XI p9 ->
                                                     (match p9 with
                                                      | XO p10 ->
                                                        (match p10 with
                                                         | XO p11 ->
                                                           (match p11 with
                                                            | XO p12 ->
                                                              (match p12 with
                                                               | XH ->
                                                                 (match 
                                                                  g_string k with
                                                                  | Some r0 ->
                                                                    let key =
                                                                    mk_scalar
                                                                    (consumed
                                                                    b0 r0)
                                                                    (Z.add
                                                                    depth
                                                                    (Zpos XH))
                                                                    i true
                                                                    in
                                                                    (
                                                                    match 
                                                                    skip_ws r0 with
                                                                    | [] ->
                                                                    None
                                                                    | z3 :: r'0 ->
                                                                    (match z3 with
                                                                    | Zpos p13 ->
                                                                    (match p13 with
                                                                    | XO p14 ->
                                                                    (match p14 with
                                                                    | XI p15 ->
                                                                    (match p15 with
                                                                    | XO p16 ->
                                                                    (match p16 with
                                                                    | XI p17 ->
                                                                    (match p17 with
                                                                    | XI p18 ->
                                                                    (match p18 with
                                                                    | XH ->
                                                                    (match 
                                                                    g_tokens
                                                                    f
                                                                    (skip_ws
                                                                    r'0)
                                                                    (Z.add
                                                                    depth
                                                                    (Zpos XH))
                                                                    i false with
                                                                    | Some p19 ->
                                                                    let (
                                                                    ts, r1) =
                                                                    p19
                                                                    in
                                                                    (
                                                                    match 
                                                                    skip_ws r1 with
                                                                    | [] ->
                                                                    None
                                                                    | z4 :: r'1 ->
                                                                    (match z4 with
                                                                    | Zpos p20 ->
                                                                    (match p20 with
                                                                    | XI p21 ->
                                                                    (match p21 with
                                                                    | XO p22 ->
                                                                    (match p22 with
                                                                    | XI p23 ->
                                                                    (match p23 with
                                                                    | XI p24 ->
                                                                    (match p24 with
                                                                    | XI p25 ->
                                                                    (match p25 with
                                                                    | XI p26 ->
                                                                    (match p26 with
                                                                    | XH ->
                                                                    Some
                                                                    ((app acc
                                                                    (app
                                                                    (key :: (
                                                                    (mk_punct
                                                                    (Zpos (XO
                                                                    (XI (XO
                                                                    (XI (XI
                                                                    XH))))))) :: []))
                                                                    (app ts
                                                                    ((mk_punct
                                                                    (Zpos (XI
                                                                    (XO (XI
                                                                    (XI (XI
                                                                    (XI
                                                                    XH)))))))) :: [])))),
                                                                    r'1)
                                                                    | _ ->
                                                                    None)
                                                                    | _ ->
                                                                    None)
                                                                    | _ ->
                                                                    None)
                                                                    | _ ->
                                                                    None)
                                                                    | _ ->
                                                                    None)
                                                                    | _ ->
                                                                    None)
                                                                    | XO p21 ->
                                                                    (match p21 with
                                                                    | XO p22 ->
                                                                    (match p22 with
                                                                    | XI p23 ->
                                                                    (match p23 with
                                                                    | XI p24 ->
                                                                    (match p24 with
                                                                    | XO p25 ->
                                                                    (match p25 with
                                                                    | XH ->
                                                                    members
                                                                    n'
                                                                    (skip_ws
                                                                    r'1)
                                                                    (Z.add i
                                                                    (Zpos XH))
                                                                    (app acc
                                                                    (app
                                                                    (key :: (
                                                                    (mk_punct
                                                                    (Zpos (XO
                                                                    (XI (XO
                                                                    (XI (XI
                                                                    XH))))))) :: []))
                                                                    (app ts
                                                                    ((mk_punct
                                                                    (Zpos (XO
                                                                    (XO (XI
                                                                    (XI (XO
                                                                    XH))))))) :: []))))
                                                                    | _ ->
                                                                    None)
                                                                    | _ ->
                                                                    None)
                                                                    | _ ->
                                                                    None)
                                                                    | _ ->
                                                                    None)
                                                                    | _ ->
                                                                    None)
                                                                    | XH ->
                                                                    None)
                                                                    | _ ->
                                                                    None))
                                                                    | None ->
                                                                    None)
                                                                    | _ ->
                                                                    None)
                                                                    | _ ->
                                                                    None)
                                                                    | _ ->
                                                                    None)
                                                                    | _ ->
                                                                    None)
                                                                    | _ ->
                                                                    None)
                                                                    | _ ->
                                                                    None)
                                                                    | _ ->
                                                                    None))
                                                                  | None ->
                                                                    None)
                                                               | _ -> None)
                                                            | _ -> None)
                                                         | _ -> None)
                                                      | _ -> None)
                                                   | _ -> None)
                                                | _ -> None)
                                             | _ -> None))
                                     in members f ((Zneg p6) :: r') Z0
                                          (open_ :: [])))
                             | _ ->
                               (match g_value (S f) b with
                                | Some r0 ->
                                  Some
                                    (((mk_scalar (consumed b r0) depth index
                                        iskey) :: []), r0)
                                | None -> None))
                          | XO p5 ->
                            (match p5 with
                             | XH ->
                               let open_ =
                                 mk_scalar ((Zpos (XI (XI (XO (XI (XI (XO
                                   XH))))))) :: []) depth index iskey
                               in
                               (match skip_ws r with
                                | [] ->
                                  let rec elems n0 b0 i acc =
                                    match n0 with
                                    | O -> None
                                    | S n' ->
                                      (match g_tokens f b0
                                               (Z.add depth (Zpos XH)) i false with
                                       | Some p6 ->
                                         let (ts, r0) = p6 in
                                         (match skip_ws r0 with
                                          | [] -> None
                                          | z1 :: r' ->
                                            (match z1 with
                                             | Zpos p7 ->
                                               (match p7 with
                                                | XI p8 ->
                                                  (match p8 with
                                                   | XO p9 ->
                                                     (match p9 with
                                                      | XI p10 ->
                                                        (match p10 with
                                                         | XI p11 ->
                                                           (match p11 with
                                                            | XI p12 ->
                                                              (match p12 with
                                                               | XO p13 ->
                                                                 (match p13 with
                                                                  | XH ->
                                                                    Some
                                                                    ((app acc
                                                                    (app ts
                                                                    ((mk_punct
                                                                    (Zpos (XI
                                                                    (XO (XI
                                                                    (XI (XI
                                                                    (XO
                                                                    XH)))))))) :: []))),
                                                                    r')
                                                                  | _ -> None)
                                                               | _ -> None)
                                                            | _ -> None)
                                                         | _ -> None)
                                                      | _ -> None)
                                                   | _ -> None)
                                                | XO p8 ->
                                                  (match p8 with
                                                   | XO p9 ->
                                                     (match p9 with
                                                      | XI p10 ->
                                                        (match p10 with
                                                         | XI p11 ->
                                                           (match p11 with
                                                            | XO p12 ->
                                                              (match p12 with
                                                               | XH ->
                                                                 elems n'
                                                                   (skip_ws
                                                                    r')
                                                                   (Z.add i
                                                                    (Zpos XH))
                                                                   (app acc
                                                                    (app ts
                                                                    ((mk_punct
                                                                    (Zpos (XO
                                                                    (XO (XI
                                                                    (XI (XO
                                                                    XH))))))) :: [])))
                                                               | _ -> None)
                                                            | _ -> None)
                                                         | _ -> None)
                                                      | _ -> None)
                                                   | _ -> None)
                                                | XH -> None)
                                             | _ -> None))
                                       | None -> None)
                                  in elems f [] Z0 (open_ :: [])
                                | z1 :: r' ->
                                  (match z1 with
                                   | Z0 ->
                                     let rec elems n0 b0 i acc =
                                       match n0 with
                                       | O -> None
                                       | S n' ->
                                         (match g_tokens f b0
                                                  (Z.add depth (Zpos XH)) i
                                                  false with
                                          | Some p6 ->
                                            let (ts, r0) = p6 in
                                            (match skip_ws r0 with
                                             | [] -> None
                                             | z2 :: r'0 ->
                                               (match z2 with
                                                | Zpos p7 ->
                                                  (match p7 with
                                                   | XI p8 ->
                                                     (match p8 with
                                                      | XO p9 ->
                                                        (match p9 with
                                                         | XI p10 ->
                                                           (match p10 with
                                                            | XI p11 ->
                                                              (match p11 with
                                                               | XI p12 ->
                                                                 (match p12 with
                                                                  | XO p13 ->
                                                                    (match p13 with
                                                                    | XH ->
                                                                    Some
                                                                    ((app acc
                                                                    (app ts
                                                                    ((mk_punct
                                                                    (Zpos (XI
                                                                    (XO (XI
                                                                    (XI (XI
                                                                    (XO
                                                                    XH)))))))) :: []))),
                                                                    r'0)
                                                                    | _ ->
                                                                    None)
                                                                  | _ -> None)
                                                               | _ -> None)
                                                            | _ -> None)
                                                         | _ -> None)
                                                      | _ -> None)
                                                   | XO p8 ->
                                                     (match p8 with
                                                      | XO p9 ->
                                                        (match p9 with
                                                         | XI p10 ->
                                                           (match p10 with
                                                            | XI p11 ->
                                                              (match p11 with
                                                               | XO p12 ->
                                                                 (match p12 with
                                                                  | XH ->
                                                                    elems n'
                                                                    (skip_ws
                                                                    r'0)
                                                                    (Z.add i
                                                                    (Zpos XH))
                                                                    (app acc
                                                                    (app ts
                                                                    ((mk_punct
                                                                    (Zpos (XO
                                                                    (XO (XI
                                                                    (XI (XO
                                                                    XH))))))) :: [])))
                                                                  | _ -> None)
                                                               | _ -> None)
                                                            | _ -> None)
                                                         | _ -> None)
                                                      | _ -> None)
                                                   | XH -> None)
                                                | _ -> None))
                                          | None -> None)
                                     in elems f (Z0 :: r') Z0 (open_ :: [])
                                   | Zpos p6 ->
                                     (match p6 with
                                      | XI p7 ->
                                        (match p7 with
                                         | XI p8 ->
                                           let rec elems n0 b0 i acc =
                                             match n0 with
                                             | O -> None
                                             | S n' ->
                                               (match g_tokens f b0
                                                        (Z.add depth (Zpos
                                                          XH)) i false with
                                                | Some p9 ->
                                                  let (ts, r0) = p9 in
                                                  (match skip_ws r0 with
                                                   | [] -> None
                                                   | z2 :: r'0 ->
                                                     (match z2 with
                                                      | Zpos p10 ->
                                                        (match p10 with
                                                         | XI p11 ->
                                                           (match p11 with
                                                            | XO p12 ->
                                                              (match p12 with
                                                               | XI p13 ->
                                                                 (match p13 with
                                                                  | XI p14 ->
                                                                    (match p14 with
                                                                    | XI p15 ->
                                                                    (match p15 with
                                                                    | XO p16 ->
                                                                    (match p16 with
                                                                    | XH ->
                                                                    Some
                                                                    ((app acc
                                                                    (app ts
                                                                    ((mk_punct
                                                                    (Zpos (XI
                                                                    (XO (XI
                                                                    (XI (XI
                                                                    (XO
                                                                    XH)))))))) :: []))),
                                                                    r'0)
                                                                    | _ ->
                                                                    None)
                                                                    | _ ->
                                                                    None)
                                                                    | _ ->
                                                                    None)
                                                                  | _ -> None)
                                                               | _ -> None)
                                                            | _ -> None)
                                                         | XO p11 ->
                                                           (match p11 with
                                                            | XO p12 ->
                                                              (match p12 with
                                                               | XI p13 ->
                                                                 (match p13 with
                                                                  | XI p14 ->
                                                                    (match p14 with
                                                                    | XO p15 ->
                                                                    (match p15 with
                                                                    | XH ->
                                                                    elems n'
                                                                    (skip_ws
                                                                    r'0)
                                                                    (Z.add i
                                                                    (Zpos XH))
                                                                    (app acc
                                                                    (app ts
                                                                    ((mk_punct
                                                                    (Zpos (XO
                                                                    (XO (XI
                                                                    (XI (XO
                                                                    XH))))))) :: [])))
                                                                    | _ ->
                                                                    None)
                                                                    | _ ->
                                                                    None)
                                                                  | _ -> None)
                                                               | _ -> None)
                                                            | _ -> None)
                                                         | XH -> None)
                                                      | _ -> None))
                                                | None -> None)
                                           in elems f ((Zpos (XI (XI
                                                p8))) :: r') Z0 (open_ :: [])
                                         | XO p8 ->
                                           (match p8 with
                                            | XI p9 ->
                                              (match p9 with
                                               | XI p10 ->
                                                 (match p10 with
                                                  | XI p11 ->
                                                    (match p11 with
                                                     | XI p12 ->
                                                       let rec elems n0 b0 i acc =
                                                         match n0 with
                                                         | O -> None
                                                         | S n' ->
                                                           (match g_tokens f
                                                                    b0
                                                                    (Z.add
                                                                    depth
                                                                    (Zpos XH))
                                                                    i false with
                                                            | Some p13 ->
                                                              let (ts, r0) =
                                                                p13
                                                              in
                                                              (match 
                                                               skip_ws r0 with
                                                               | [] -> None
                                                               | z2 :: r'0 ->
                                                                 (match z2 with
                                                                  | Zpos p14 ->
                                                                    (match p14 with
                                                                    | XI p15 ->
                                                                    (match p15 with
                                                                    | XO p16 ->
                                                                    (match p16 with
                                                                    | XI p17 ->
                                                                    (match p17 with
                                                                    | XI p18 ->
                                                                    (match p18 with
                                                                    | XI p19 ->
                                                                    (match p19 with
                                                                    | XO p20 ->
                                                                    (match p20 with
                                                                    | XH ->
                                                                    Some
                                                                    ((app acc
                                                                    (app ts
                                                                    ((mk_punct
                                                                    (Zpos (XI
                                                                    (XO (XI
                                                                    (XI (XI
                                                                    (XO
                                                                    XH)))))))) :: []))),
                                                                    r'0)
                                                                    | _ ->
                                                                    None)
                                                                    | _ ->
                                                                    None)
                                                                    | _ ->
                                                                    None)
                                                                    | _ ->
                                                                    None)
                                                                    | _ ->
                                                                    None)
                                                                    | _ ->
                                                                    None)
                                                                    | XO p15 ->
                                                                    (match p15 with
                                                                    | XO p16 ->
                                                                    (match p16 with
                                                                    | XI p17 ->
                                                                    (match p17 with
                                                                    | XI p18 ->
                                                                    (match p18 with
                                                                    | XO p19 ->
                                                                    (match p19 with
                                                                    | XH ->
                                                                    elems n'
                                                                    (skip_ws
                                                                    r'0)
                                                                    (Z.add i
                                                                    (Zpos XH))
                                                                    (app acc
                                                                    (app ts
                                                                    ((mk_punct
                                                                    (Zpos (XO
                                                                    (XO (XI
                                                                    (XI (XO
                                                                    XH))))))) :: [])))
                                                                    | _ ->
                                                                    None)
                                                                    | _ ->
                                                                    None)
                                                                    | _ ->
                                                                    None)
                                                                    | _ ->
                                                                    None)
                                                                    | _ ->
                                                                    None)
                                                                    | XH ->
                                                                    None)
                                                                  | _ -> None))
                                                            | None -> None)
                                                       in elems f ((Zpos (XI
                                                            (XO (XI (XI (XI
                                                            (XI
                                                            p12))))))) :: r')
                                                            Z0 (open_ :: [])
                                                     | XO p12 ->
                                                       (match p12 with
                                                        | XI p13 ->
                                                          let rec elems n0 b0 i acc =
                                                            match n0 with
                                                            | O -> None
                                                            | S n' ->
                                                              (match 
                                                               g_tokens f b0
                                                                 (Z.add depth
                                                                   (Zpos XH))
                                                                 i false with
                                                               | Some p14 ->
                                                                 let (
                                                                   ts, r0) =
                                                                   p14
                                                                 in
                                                                 (match 
                                                                  skip_ws r0 with
                                                                  | [] -> None
                                                                  | z2 :: r'0 ->
                                                                    (match z2 with
                                                                    | Zpos p15 ->
                                                                    (match p15 with
                                                                    | XI p16 ->
                                                                    (match p16 with
                                                                    | XO p17 ->
                                                                    (match p17 with
                                                                    | XI p18 ->
                                                                    (match p18 with
                                                                    | XI p19 ->
                                                                    (match p19 with
                                                                    | XI p20 ->
                                                                    (match p20 with
                                                                    | XO p21 ->
                                                                    (match p21 with
                                                                    | XH ->
                                                                    Some
                                                                    ((app acc
                                                                    (app ts
                                                                    ((mk_punct
                                                                    (Zpos (XI
                                                                    (XO (XI
                                                                    (XI (XI
                                                                    (XO
                                                                    XH)))))))) :: []))),
                                                                    r'0)
                                                                    | _ ->
                                                                    None)
                                                                    | _ ->
                                                                    None)
                                                                    | _ ->
                                                                    None)
                                                                    | _ ->
                                                                    None)
                                                                    | _ ->
                                                                    None)
                                                                    | _ ->
                                                                    None)
                                                                    | XO p16 ->
                                                                    (match p16 with
                                                                    | XO p17 ->
                                                                    (match p17 with
                                                                    | XI p18 ->
                                                                    (match p18 with
                                                                    | XI p19 ->
                                                                    (match p19 with
                                                                    | XO p20 ->
                                                                    (match p20 with
                                                                    | XH ->
                                                                    elems n'
                                                                    (skip_ws
                                                                    r'0)
                                                                    (Z.add i
                                                                    (Zpos XH))
                                                                    (app acc
                                                                    (app ts
                                                                    ((mk_punct
                                                                    (Zpos (XO
                                                                    (XO (XI
                                                                    (XI (XO
                                                                    XH))))))) :: [])))
                                                                    | _ ->
                                                                    None)
                                                                    | _ ->
                                                                    None)
                                                                    | _ ->
                                                                    None)
                                                                    | _ ->
                                                                    None)
                                                                    | _ ->
                                                                    None)
                                                                    | XH ->
                                                                    None)
                                                                    | _ ->
                                                                    None))
                                                               | None -> None)
                                                          in elems f ((Zpos
                                                               (XI (XO (XI
                                                               (XI (XI (XO
                                                               (XI
                                                               p13)))))))) :: r')
                                                               Z0
                                                               (open_ :: [])
                                                        | XO p13 ->
                                                          let rec elems n0 b0 i acc =
                                                            match n0 with
                                                            | O -> None
                                                            | S n' ->
                                                              (match 
                                                               g_tokens f b0
                                                                 (Z.add depth
                                                                   (Zpos XH))
                                                                 i false with
                                                               | Some p14 ->
                                                                 let (
                                                                   ts, r0) =
                                                                   p14
                                                                 in
                                                                 (match 
                                                                  skip_ws r0 with
                                                                  | [] -> None
                                                                  | z2 :: r'0 ->
                                                                    (match z2 with
                                                                    | Zpos p15 ->
                                                                    (match p15 with
                                                                    | XI p16 ->
                                                                    (match p16 with
                                                                    | XO p17 ->
                                                                    (match p17 with
                                                                    | XI p18 ->
                                                                    (match p18 with
                                                                    | XI p19 ->
                                                                    (match p19 with
                                                                    | XI p20 ->
                                                                    (match p20 with
                                                                    | XO p21 ->
                                                                    (match p21 with
                                                                    | XH ->
                                                                    Some
                                                                    ((app acc
                                                                    (app ts
                                                                    ((mk_punct
                                                                    (Zpos (XI
                                                                    (XO (XI
                                                                    (XI (XI
                                                                    (XO
                                                                    XH)))))))) :: []))),
                                                                    r'0)
                                                                    | _ ->
                                                                    None)
                                                                    | _ ->
                                                                    None)
                                                                    | _ ->
                                                                    None)
                                                                    | _ ->
                                                                    None)
                                                                    | _ ->
                                                                    None)
                                                                    | _ ->
                                                                    None)
                                                                    | XO p16 ->
                                                                    (match p16 with
                                                                    | XO p17 ->
                                                                    (match p17 with
                                                                    | XI p18 ->
                                                                    (match p18 with
                                                                    | XI p19 ->
                                                                    (match p19 with
                                                                    | XO p20 ->
                                                                    (match p20 with
                                                                    | XH ->
                                                                    elems n'
                                                                    (skip_ws
                                                                    r'0)
                                                                    (Z.add i
                                                                    (Zpos XH))
                                                                    (app acc
                                                                    (app ts
                                                                    ((mk_punct
                                                                    (Zpos (XO
                                                                    (XO (XI
                                                                    (XI (XO
                                                                    XH))))))) :: [])))
                                                                    | _ ->
                                                                    None)
                                                                    | _ ->
                                                                    None)
                                                                    | _ ->
                                                                    None)
                                                                    | _ ->
                                                                    None)
                                                                    | _ ->
                                                                    None)
                                                                    | XH ->
                                                                    None)
                                                                    | _ ->
                                                                    None))
                                                               | None -> None)
                                                          in elems f ((Zpos
                                                               (XI (XO (XI
                                                               (XI (XI (XO
                                                               (XO
                                                               p13)))))))) :: r')
                                                               Z0
                                                               (open_ :: [])
                                                        | XH ->
                                                          Some
                                                            ((open_ :: (
                                                            (mk_punct (Zpos
                                                              (XI (XO (XI (XI
                                                              (XI (XO
                                                              XH)))))))) :: [])),
                                                            r'))
                                                     | XH ->
                                                       let rec elems n0 b0 i acc =
                                                         match n0 with
                                                         | O -> None
                                                         | S n' ->
                                                           (match g_tokens f
                                                                    b0
                                                                    (Z.add
                                                                    depth
                                                                    (Zpos XH))
                                                                    i false with
                                                            | Some p12 ->
                                                              let (ts, r0) =
                                                                p12
                                                              in
                                                              (match 
                                                               skip_ws r0 with
                                                               | [] -> None
                                                               | z2 :: r'0 ->
                                                                 (match z2 with
                                                                  | Zpos p13 ->
                                                                    (match p13 with
                                                                    | XI p14 ->
                                                                    (match p14 with
                                                                    | XO p15 ->
                                                                    (match p15 with
                                                                    | XI p16 ->
                                                                    (match p16 with
                                                                    | XI p17 ->
                                                                    (match p17 with
                                                                    | XI p18 ->
                                                                    (match p18 with
                                                                    | XO p19 ->
                                                                    (match p19 with
                                                                    | XH ->
                                                                    Some
                                                                    ((app acc
                                                                    (app ts
                                                                    ((mk_punct
                                                                    (Zpos (XI
                                                                    (XO (XI
                                                                    (XI (XI
                                                                    (XO
                                                                    XH)))))))) :: []))),
                                                                    r'0)
                                                                    | _ ->
                                                                    None)
                                                                    | _ ->
                                                                    None)
                                                                    | _ ->
                                                                    None)
                                                                    | _ ->
                                                                    None)
                                                                    | _ ->
                                                                    None)
                                                                    | _ ->
                                                                    None)
                                                                    | XO p14 ->
                                                                    (match p14 with
                                                                    | XO p15 ->
                                                                    (match p15 with
                                                                    | XI p16 ->
                                                                    (match p16 with
                                                                    | XI p17 ->
                                                                    (match p17 with
                                                                    | XO p18 ->
                                                                    (match p18 with
                                                                    | XH ->
                                                                    elems n'
                                                                    (skip_ws
                                                                    r'0)
                                                                    (Z.add i
                                                                    (Zpos XH))
                                                                    (app acc
                                                                    (app ts
                                                                    ((mk_punct
                                                                    (Zpos (XO
                                                                    (XO (XI
                                                                    (XI (XO
                                                                    XH))))))) :: [])))
                                                                    | _ ->
                                                                    None)
                                                                    | _ ->
                                                                    None)
                                                                    | _ ->
                                                                    None)
                                                                    | _ ->
                                                                    None)
                                                                    | _ ->
                                                                    None)
                                                                    | XH ->
                                                                    None)
                                                                  | _ -> None))
                                                            | None -> None)
                                                       in elems f ((Zpos (XI
                                                            (XO (XI (XI (XI
                                                            XH)))))) :: r')
                                                            Z0 (open_ :: []))
                                                  | XO p11 ->
                                                    let rec elems n0 b0 i acc =
                                                      match n0 with
                                                      | O -> None
                                                      | S n' ->
                                                        (match g_tokens f b0
                                                                 (Z.add depth
                                                                   (Zpos XH))
                                                                 i false with
                                                         | Some p12 ->
                                                           let (ts, r0) = p12
                                                           in
                                                           (match skip_ws r0 with
                                                            | [] -> None
                                                            | z2 :: r'0 ->
                                                              (match z2 with
                                                               | Zpos p13 ->
                                                                 (match p13 with
                                                                  | XI p14 ->
                                                                    (match p14 with
                                                                    | XO p15 ->
                                                                    (match p15 with
                                                                    | XI p16 ->
                                                                    (match p16 with
                                                                    | XI p17 ->
                                                                    (match p17 with
                                                                    | XI p18 ->
                                                                    (match p18 with
                                                                    | XO p19 ->
                                                                    (match p19 with
                                                                    | XH ->
                                                                    Some
                                                                    ((app acc
                                                                    (app ts
                                                                    ((mk_punct
                                                                    (Zpos (XI
                                                                    (XO (XI
                                                                    (XI (XI
                                                                    (XO
                                                                    XH)))))))) :: []))),
                                                                    r'0)
                                                                    | _ ->
                                                                    None)
                                                                    | _ ->
                                                                    None)
                                                                    | _ ->
                                                                    None)
                                                                    | _ ->
                                                                    None)
                                                                    | _ ->
                                                                    None)
                                                                    | _ ->
                                                                    None)
                                                                  | XO p14 ->
                                                                    (match p14 with
                                                                    | XO p15 ->
                                                                    (match p15 with
                                                                    | XI p16 ->
                                                                    (match p16 with
                                                                    | XI p17 ->
                                                                    (match p17 with
                                                                    | XO p18 ->
                                                                    (match p18 with
                                                                    | XH ->
                                                                    elems n'
                                                                    (skip_ws
                                                                    r'0)
                                                                    (Z.add i
                                                                    (Zpos XH))
                                                                    (app acc
                                                                    (app ts
                                                                    ((mk_punct
                                                                    (Zpos (XO
                                                                    (XO (XI
                                                                    (XI (XO
                                                                    XH))))))) :: [])))
                                                                    | _ ->
                                                                    None)
                                                                    | _ ->
                                                                    None)
                                                                    | _ ->
                                                                    None)
                                                                    | _ ->
                                                                    None)
                                                                    | _ ->
                                                                    None)
                                                                  | XH -> None)
                                                               | _ -> None))
                                                         | None -> None)
                                                    in elems f ((Zpos (XI (XO
                                                         (XI (XI (XO
                                                         p11)))))) :: r') Z0
                                                         (open_ :: [])
                                                  | XH ->
                                                    let rec elems n0 b0 i acc =
                                                      match n0 with
                                                      | O -> None
                                                      | S n' ->
                                                        (match g_tokens f b0
                                                                 (Z.add depth
                                                                   (Zpos XH))
                                                                 i false with
                                                         | Some p11 ->
                                                           let (ts, r0) = p11
                                                           in
                                                           (match skip_ws r0 with
                                                            | [] -> None
                                                            | z2 :: r'0 ->
                                                              (match z2 with
                                                               | Zpos p12 ->
                                                                 (match p12 with
                                                                  | XI p13 ->
                                                                    (match p13 with
                                                                    | XO p14 ->
                                                                    (match p14 with
                                                                    | XI p15 ->
                                                                    (match p15 with
                                                                    | XI p16 ->
                                                                    (match p16 with
                                                                    | XI p17 ->
                                                                    (match p17 with
                                                                    | XO p18 ->
                                                                    (match p18 with
                                                                    | XH ->
                                                                    Some
                                                                    ((app acc
                                                                    (app ts
                                                                    ((mk_punct
                                                                    (Zpos (XI
                                                                    (XO (XI
                                                                    (XI (XI
                                                                    (XO
                                                                    XH)))))))) :: []))),
                                                                    r'0)
                                                                    | _ ->
                                                                    None)
                                                                    | _ ->
                                                                    None)
                                                                    | _ ->
                                                                    None)
                                                                    | _ ->
                                                                    None)
                                                                    | _ ->
                                                                    None)
                                                                    | _ ->
                                                                    None)
                                                                  | XO p13 ->
                                                                    (match p13 with
                                                                    | XO p14 ->
                                                                    (match p14 with
                                                                    | XI p15 ->
                                                                    (match p15 with
                                                                    | XI p16 ->
                                                                    (match p16 with
                                                                    | XO p17 ->
                                                                    (match p17 with
                                                                    | XH ->
                                                                    elems n'
                                                                    (skip_ws
                                                                    r'0)
                                                                    (Z.add i
                                                                    (Zpos XH))
                                                                    (app acc
                                                                    (app ts
                                                                    ((mk_punct
                                                                    (Zpos (XO
                                                                    (XO (XI
                                                                    (XI (XO
                                                                    XH))))))) :: [])))
                                                                    | _ ->
                                                                    None)
                                                                    | _ ->
                                                                    None)
                                                                    | _ ->
                                                                    None)
                                                                    | _ ->
                                                                    None)
                                                                    | _ ->
                                                                    None)
                                                                  | XH -> None)
                                                               | _ -> None))
                                                         | None -> None)
                                                    in elems f ((Zpos (XI (XO
                                                         (XI (XI
                                                         XH))))) :: r') Z0
                                                         (open_ :: []))
                                               | XO p10 ->
                                                 let rec elems n0 b0 i acc =
                                                   match n0 with
                                                   | O -> None
                                                   | S n' ->
                                                     (match g_tokens f b0
                                                              (Z.add depth
                                                                (Zpos XH)) i
                                                              false with
                                                      | Some p11 ->
                                                        let (ts, r0) = p11 in
                                                        (match skip_ws r0 with
                                                         | [] -> None
                                                         | z2 :: r'0 ->
                                                           (match z2 with
                                                            | Zpos p12 ->
                                                              (match p12 with
                                                               | XI p13 ->
                                                                 (match p13 with
                                                                  | XO p14 ->
                                                                    (match p14 with
                                                                    | XI p15 ->
                                                                    (match p15 with
                                                                    | XI p16 ->
                                                                    (match p16 with
                                                                    | XI p17 ->
                                                                    (match p17 with
                                                                    | XO p18 ->
                                                                    (match p18 with
                                                                    | XH ->
                                                                    Some
                                                                    ((app acc
                                                                    (app ts
                                                                    ((mk_punct
                                                                    (Zpos (XI
                                                                    (XO (XI
                                                                    (XI (XI
                                                                    (XO
                                                                    XH)))))))) :: []))),
                                                                    r'0)
                                                                    | _ ->
                                                                    None)
                                                                    | _ ->
                                                                    None)
                                                                    | _ ->
                                                                    None)
                                                                    | _ ->
                                                                    None)
                                                                    | _ ->
                                                                    None)
                                                                  | _ -> None)
                                                               | XO p13 ->
                                                                 (match p13 with
                                                                  | XO p14 ->
                                                                    (match p14 with
                                                                    | XI p15 ->
                                                                    (match p15 with
                                                                    | XI p16 ->
                                                                    (match p16 with
                                                                    | XO p17 ->
                                                                    (match p17 with
                                                                    | XH ->
                                                                    elems n'
                                                                    (skip_ws
                                                                    r'0)
                                                                    (Z.add i
                                                                    (Zpos XH))
                                                                    (app acc
                                                                    (app ts
                                                                    ((mk_punct
                                                                    (Zpos (XO
                                                                    (XO (XI
                                                                    (XI (XO
                                                                    XH))))))) :: [])))
                                                                    | _ ->
                                                                    None)
                                                                    | _ ->
                                                                    None)
                                                                    | _ ->
                                                                    None)
                                                                    | _ ->
                                                                    None)
                                                                  | _ -> None)
                                                               | XH -> None)
                                                            | _ -> None))
                                                      | None -> None)
                                                 in elems f ((Zpos (XI (XO
                                                      (XI (XO p10))))) :: r')
                                                      Z0 (open_ :: [])
                                               | XH ->
                                                 let rec elems n0 b0 i acc =
                                                   match n0 with
                                                   | O -> None
                                                   | S n' ->
                                                     (match g_tokens f b0
                                                              (Z.add depth
                                                                (Zpos XH)) i
                                                              false with
                                                      | Some p10 ->
                                                        let (ts, r0) = p10 in
                                                        (match skip_ws r0 with
                                                         | [] -> None
                                                         | z2 :: r'0 ->
                                                           (match z2 with
                                                            | Zpos p11 ->
                                                              (match p11 with
                                                               | XI p12 ->
                                                                 (match p12 with
                                                                  | XO p13 ->
                                                                    (match p13 with
                                                                    | XI p14 ->
                                                                    (match p14 with
                                                                    | XI p15 ->
                                                                    (match p15 with
                                                                    | XI p16 ->
                                                                    (match p16 with
                                                                    | XO p17 ->
                                                                    (match p17 with
                                                                    | XH ->
                                                                    Some
                                                                    ((app acc
                                                                    (app ts
                                                                    ((mk_punct
                                                                    (Zpos (XI
                                                                    (XO (XI
                                                                    (XI (XI
                                                                    (XO
                                                                    XH)))))))) :: []))),
                                                                    r'0)
                                                                    | _ ->
                                                                    None)
                                                                    | _ ->
                                                                    None)
                                                                    | _ ->
                                                                    None)
                                                                    | _ ->
                                                                    None)
                                                                    | _ ->
                                                                    None)
                                                                  | _ -> None)
                                                               | XO p12 ->
                                                                 (match p12 with
                                                                  | XO p13 ->
                                                                    (match p13 with
                                                                    | XI p14 ->
                                                                    (match p14 with
                                                                    | XI p15 ->
                                                                    (match p15 with
                                                                    | XO p16 ->
                                                                    (match p16 with
                                                                    | XH ->
                                                                    elems n'
                                                                    (skip_ws
                                                                    r'0)
                                                                    (Z.add i
                                                                    (Zpos XH))
                                                                    (app acc
                                                                    (app ts
                                                                    ((mk_punct
                                                                    (Zpos (XO
                                                                    (XO (XI
                                                                    (XI (XO
                                                                    XH))))))) :: [])))
                                                                    | _ ->
                                                                    None)
                                                                    | _ ->
                                                                    None)
                                                                    | _ ->
                                                                    None)
                                                                    | _ ->
                                                                    None)
                                                                  | _ -> None)
                                                               | XH -> None)
                                                            | _ -> None))
                                                      | None -> None)
                                                 in elems f ((Zpos (XI (XO
                                                      (XI XH)))) :: r') Z0
                                                      (open_ :: []))
                                            | XO p9 ->
                                              let rec elems n0 b0 i acc =
                                                match n0 with
                                                | O -> None
                                                | S n' ->
                                                  (match g_tokens f b0
                                                           (Z.add depth (Zpos
                                                             XH)) i false with
                                                   | Some p10 ->
                                                     let (ts, r0) = p10 in
                                                     (match skip_ws r0 with
                                                      | [] -> None
                                                      | z2 :: r'0 ->
                                                        (match z2 with
                                                         | Zpos p11 ->
                                                           (match p11 with
                                                            | XI p12 ->
                                                              (match p12 with
                                                               | XO p13 ->
                                                                 (match p13 with
                                                                  | XI p14 ->
                                                                    (match p14 with
                                                                    | XI p15 ->
                                                                    (match p15 with
                                                                    | XI p16 ->
                                                                    (match p16 with
                                                                    | XO p17 ->
                                                                    (match p17 with
                                                                    | XH ->
                                                                    Some
                                                                    ((app acc
                                                                    (app ts
                                                                    ((mk_punct
                                                                    (Zpos (XI
                                                                    (XO (XI
                                                                    (XI (XI
                                                                    (XO
                                                                    XH)))))))) :: []))),
                                                                    r'0)
                                                                    | _ ->
                                                                    None)
                                                                    | _ ->
                                                                    None)
                                                                    | _ ->
                                                                    None)
                                                                    | _ ->
                                                                    None)
                                                                  | _ -> None)
                                                               | _ -> None)
                                                            | XO p12 ->
                                                              (match p12 with
                                                               | XO p13 ->
                                                                 (match p13 with
                                                                  | XI p14 ->
                                                                    (match p14 with
                                                                    | XI p15 ->
                                                                    (match p15 with
                                                                    | XO p16 ->
                                                                    (match p16 with
                                                                    | XH ->
                                                                    elems n'
                                                                    (skip_ws
                                                                    r'0)
                                                                    (Z.add i
                                                                    (Zpos XH))
                                                                    (app acc
                                                                    (app ts
                                                                    ((mk_punct
                                                                    (Zpos (XO
                                                                    (XO (XI
                                                                    (XI (XO
                                                                    XH))))))) :: [])))
                                                                    | _ ->
                                                                    None)
                                                                    | _ ->
                                                                    None)
                                                                    | _ ->
                                                                    None)
                                                                  | _ -> None)
                                                               | _ -> None)
                                                            | XH -> None)
                                                         | _ -> None))
                                                   | None -> None)
                                              in elems f ((Zpos (XI (XO (XO
                                                   p9)))) :: r') Z0
                                                   (open_ :: [])
                                            | XH ->
                                              let rec elems n0 b0 i acc =
                                                match n0 with
                                                | O -> None
                                                | S n' ->
                                                  (match g_tokens f b0
                                                           (Z.add depth (Zpos
                                                             XH)) i false with
                                                   | Some p9 ->
                                                     let (ts, r0) = p9 in
                                                     (match skip_ws r0 with
                                                      | [] -> None
                                                      | z2 :: r'0 ->
                                                        (match z2 with
                                                         | Zpos p10 ->
                                                           (match p10 with
                                                            | XI p11 ->
                                                              (match p11 with
                                                               | XO p12 ->
                                                                 (match p12 with
                                                                  | XI p13 ->
                                                                    (match p13 with
                                                                    | XI p14 ->
                                                                    (match p14 with
                                                                    | XI p15 ->
                                                                    (match p15 with
                                                                    | XO p16 ->
                                                                    (match p16 with
                                                                    | XH ->
                                                                    Some
                                                                    ((app acc
                                                                    (app ts
                                                                    ((mk_punct
                                                                    (Zpos (XI
                                                                    (XO (XI
                                                                    (XI (XI
                                                                    (XO
                                                                    XH)))))))) :: []))),
                                                                    r'0)
                                                                    | _ ->
                                                                    None)
                                                                    | _ ->
                                                                    None)
                                                                    | _ ->
                                                                    None)
                                                                    | _ ->
                                                                    None)
                                                                  | _ -> None)
                                                               | _ -> None)
                                                            | XO p11 ->
                                                              (match p11 with
                                                               | XO p12 ->
                                                                 (match p12 with
                                                                  | XI p13 ->
                                                                    (match p13 with
                                                                    | XI p14 ->
                                                                    (match p14 with
                                                                    | XO p15 ->
                                                                    (match p15 with
                                                                    | XH ->
                                                                    elems n'
                                                                    (skip_ws
                                                                    r'0)
                                                                    (Z.add i
                                                                    (Zpos XH))
                                                                    (app acc
                                                                    (app ts
                                                                    ((mk_punct
                                                                    (Zpos (XO
                                                                    (XO (XI
                                                                    (XI (XO
                                                                    XH))))))) :: [])))
                                                                    | _ ->
                                                                    None)
                                                                    | _ ->
                                                                    None)
                                                                    | _ ->
                                                                    None)
                                                                  | _ -> None)
                                                               | _ -> None)
                                                            | XH -> None)
                                                         | _ -> None))
                                                   | None -> None)
                                              in elems f ((Zpos (XI (XO
                                                   XH))) :: r') Z0
                                                   (open_ :: []))
                                         | XH ->
                                           let rec elems n0 b0 i acc =
                                             match n0 with
                                             | O -> None
                                             | S n' ->
                                               (match g_tokens f b0
                                                        (Z.add depth (Zpos
                                                          XH)) i false with
                                                | Some p8 ->
                                                  let (ts, r0) = p8 in
                                                  (match skip_ws r0 with
                                                   | [] -> None
                                                   | z2 :: r'0 ->
                                                     (match z2 with
                                                      | Zpos p9 ->
                                                        (match p9 with
                                                         | XI p10 ->
                                                           (match p10 with
                                                            | XO p11 ->
                                                              (match p11 with
                                                               | XI p12 ->
                                                                 (match p12 with
                                                                  | XI p13 ->
                                                                    (match p13 with
                                                                    | XI p14 ->
                                                                    (match p14 with
                                                                    | XO p15 ->
                                                                    (match p15 with
                                                                    | XH ->
                                                                    Some
                                                                    ((app acc
                                                                    (app ts
                                                                    ((mk_punct
                                                                    (Zpos (XI
                                                                    (XO (XI
                                                                    (XI (XI
                                                                    (XO
                                                                    XH)))))))) :: []))),
                                                                    r'0)
                                                                    | _ ->
                                                                    None)
                                                                    | _ ->
                                                                    None)
                                                                    | _ ->
                                                                    None)
                                                                  | _ -> None)
                                                               | _ -> None)
                                                            | _ -> None)
                                                         | XO p10 ->
                                                           (match p10 with
                                                            | XO p11 ->
                                                              (match p11 with
                                                               | XI p12 ->
                                                                 (match p12 with
                                                                  | XI p13 ->
                                                                    (match p13 with
                                                                    | XO p14 ->
                                                                    (match p14 with
                                                                    | XH ->
                                                                    elems n'
                                                                    (skip_ws
                                                                    r'0)
                                                                    (Z.add i
                                                                    (Zpos XH))
                                                                    (app acc
                                                                    (app ts
                                                                    ((mk_punct
                                                                    (Zpos (XO
                                                                    (XO (XI
                                                                    (XI (XO
                                                                    XH))))))) :: [])))
                                                                    | _ ->
                                                                    None)
                                                                    | _ ->
                                                                    None)
                                                                  | _ -> None)
                                                               | _ -> None)
                                                            | _ -> None)
                                                         | XH -> None)
                                                      | _ -> None))
                                                | None -> None)
                                           in elems f ((Zpos (XI XH)) :: r')
                                                Z0 (open_ :: []))
                                      | XO p7 ->
                                        let rec elems n0 b0 i acc =
                                          match n0 with
                                          | O -> None
                                          | S n' ->
                                            (match g_tokens f b0
                                                     (Z.add depth (Zpos XH))
                                                     i false with
                                             | Some p8 ->
                                               let (ts, r0) = p8 in
                                               (match skip_ws r0 with
                                                | [] -> None
                                                | z2 :: r'0 ->
                                                  (match z2 with
                                                   | Zpos p9 ->
                                                     (match p9 with
                                                      | XI p10 ->
                                                        (match p10 with
                                                         | XO p11 ->
                                                           (match p11 with
                                                            | XI p12 ->
                                                              (match p12 with
                                                               | XI p13 ->
                                                                 (match p13 with
                                                                  | XI p14 ->
                                                                    (match p14 with
                                                                    | XO p15 ->
                                                                    (match p15 with
                                                                    | XH ->
                                                                    Some
                                                                    ((app acc
                                                                    (app ts
                                                                    ((mk_punct
                                                                    (Zpos (XI
                                                                    (XO (XI
                                                                    (XI (XI
                                                                    (XO
                                                                    XH)))))))) :: []))),
                                                                    r'0)
                                                                    | _ ->
                                                                    None)
                                                                    | _ ->
                                                                    None)
                                                                  | _ -> None)
                                                               | _ -> None)
                                                            | _ -> None)
                                                         | _ -> None)
                                                      | XO p10 ->
                                                        (match p10 with
                                                         | XO p11 ->
                                                           (match p11 with
                                                            | XI p12 ->
                                                              (match p12 with
                                                               | XI p13 ->
                                                                 (match p13 with
                                                                  | XO p14 ->
                                                                    (match p14 with
                                                                    | XH ->
                                                                    elems n'
                                                                    (skip_ws
                                                                    r'0)
                                                                    (Z.add i
                                                                    (Zpos XH))
                                                                    (app acc
                                                                    (app ts
                                                                    ((mk_punct
                                                                    (Zpos (XO
                                                                    (XO (XI
                                                                    (XI (XO
                                                                    XH))))))) :: [])))
                                                                    | _ ->
                                                                    None)
                                                                  | _ -> None)
                                                               | _ -> None)
                                                            | _ -> None)
                                                         | _ -> None)
                                                      | XH -> None)
                                                   | _ -> None))
                                             | None -> None)
                                        in elems f ((Zpos (XO p7)) :: r') Z0
                                             (open_ :: [])
                                      | XH ->
                                        let rec elems n0 b0 i acc =
                                          match n0 with
                                          | O -> None
                                          | S n' ->
                                            (match g_tokens f b0
                                                     (Z.add depth (Zpos XH))
                                                     i false with
                                             | Some p7 ->
                                               let (ts, r0) = p7 in
                                               (match skip_ws r0 with
                                                | [] -> None
                                                | z2 :: r'0 ->
                                                  (match z2 with
                                                   | Zpos p8 ->
                                                     (match p8 with
                                                      | XI p9 ->
                                                        (match p9 with
                                                         | XO p10 ->
                                                           (match p10 with
                                                            | XI p11 ->
                                                              (match p11 with
                                                               | XI p12 ->
                                                                 (match p12 with
                                                                  | XI p13 ->
                                                                    (match p13 with
                                                                    | XO p14 ->
                                                                    (match p14 with
                                                                    | XH ->
                                                                    Some
                                                                    ((app acc
                                                                    (app ts
                                                                    ((mk_punct
                                                                    (Zpos (XI
                                                                    (XO (XI
                                                                    (XI (XI
                                                                    (XO
                                                                    XH)))))))) :: []))),
                                                                    r'0)
                                                                    | _ ->
                                                                    None)
                                                                    | _ ->
                                                                    None)
                                                                  | _ -> None)
                                                               | _ -> None)
                                                            | _ -> None)
                                                         | _ -> None)
                                                      | XO p9 ->
                                                        (match p9 with
                                                         | XO p10 ->
                                                           (match p10 with
                                                            | XI p11 ->
                                                              (match p11 with
                                                               | XI p12 ->
                                                                 (match p12 with
                                                                  | XO p13 ->
                                                                    (match p13 with
                                                                    | XH ->
                                                                    elems n'
                                                                    (skip_ws
                                                                    r'0)
                                                                    (Z.add i
                                                                    (Zpos XH))
                                                                    (app acc
                                                                    (app ts
                                                                    ((mk_punct
                                                                    (Zpos (XO
                                                                    (XO (XI
                                                                    (XI (XO
                                                                    XH))))))) :: [])))
                                                                    | _ ->
                                                                    None)
                                                                  | _ -> None)
                                                               | _ -> None)
                                                            | _ -> None)
                                                         | _ -> None)
                                                      | XH -> None)
                                                   | _ -> None))
                                             | None -> None)
                                        in elems f ((Zpos XH) :: r') Z0
                                             (open_ :: []))
                                   | Zneg p6 ->
                                     let rec elems n0 b0 i acc =
                                       match n0 with
                                       | O -> None
                                       | S n' ->
                                         (match g_tokens f b0
                                                  (Z.add depth (Zpos XH)) i
                                                  false with
                                          | Some p7 ->
                                            let (ts, r0) = p7 in
                                            (match skip_ws r0 with
                                             | [] -> None
                                             | z2 :: r'0 ->
                                               (match z2 with
                                                | Zpos p8 ->
                                                  (match p8 with
                                                   | XI p9 ->
                                                     (match p9 with
                                                      | XO p10 ->
                                                        (match p10 with
                                                         | XI p11 ->
                                                           (match p11 with
                                                            | XI p12 ->
                                                              (match p12 with
                                                               | XI p13 ->
                                                                 (match p13 with
                                                                  | XO p14 ->
                                                                    (match p14 with
                                                                    | XH ->
                                                                    Some
                                                                    ((app acc
                                                                    (app ts
                                                                    ((mk_punct
                                                                    (Zpos (XI
                                                                    (XO (XI
                                                                    (XI (XI
                                                                    (XO
                                                                    XH)))))))) :: []))),
                                                                    r'0)
                                                                    | _ ->
                                                                    None)
                                                                  | _ -> None)
                                                               | _ -> None)
                                                            | _ -> None)
                                                         | _ -> None)
                                                      | _ -> None)
                                                   | XO p9 ->
                                                     (match p9 with
                                                      | XO p10 ->
                                                        (match p10 with
                                                         | XI p11 ->
                                                           (match p11 with
                                                            | XI p12 ->
                                                              (match p12 with
                                                               | XO p13 ->
                                                                 (match p13 with
                                                                  | XH ->
                                                                    elems n'
                                                                    (skip_ws
                                                                    r'0)
                                                                    (Z.add i
                                                                    (Zpos XH))
                                                                    (app acc
                                                                    (app ts
                                                                    ((mk_punct
                                                                    (Zpos (XO
                                                                    (XO (XI
                                                                    (XI (XO
                                                                    XH))))))) :: [])))
                                                                  | _ -> None)
                                                               | _ -> None)
                                                            | _ -> None)
                                                         | _ -> None)
                                                      | _ -> None)
                                                   | XH -> None)
                                                | _ -> None))
                                          | None -> None)
                                     in elems f ((Zneg p6) :: r') Z0
                                          (open_ :: [])))
                             | _ ->
                               (match g_value (S f) b with
                                | Some r0 ->
                                  Some
                                    (((mk_scalar (consumed b r0) depth index
                                        iskey) :: []), r0)
                                | None -> None))
                          | XH ->
                            (match g_value (S f) b with
                             | Some r0 ->
                               Some
                                 (((mk_scalar (consumed b r0) depth index
                                     iskey) :: []), r0)
                             | None -> None))
                       | _ ->
                         (match g_value (S f) b with
                          | Some r0 ->
                            Some
                              (((mk_scalar (consumed b r0) depth index iskey) :: []),
                              r0)
                          | None -> None))
                    | _ ->
                      (match g_value (S f) b with
                       | Some r0 ->
                         Some
                           (((mk_scalar (consumed b r0) depth index iskey) :: []),
                           r0)
                       | None -> None))
                 | _ ->
                   (match g_value (S f) b with
                    | Some r0 ->
                      Some
                        (((mk_scalar (consumed b r0) depth index iskey) :: []),
                        r0)
                    | None -> None))
              | _ ->
                (match g_value (S f) b with
                 | Some r0 ->
                   Some
                     (((mk_scalar (consumed b r0) depth index iskey) :: []),
                     r0)
                 | None -> None))
           | _ ->
             (match g_value (S f) b with
              | Some r0 ->
                Some (((mk_scalar (consumed b r0) depth index iskey) :: []),
                  r0)
              | None -> None))
        | _ ->
          (match g_value (S f) b with
           | Some r0 ->
             Some (((mk_scalar (consumed b r0) depth index iskey) :: []), r0)
           | None -> None)))

(** val spec_tokens : bytes -> stoken list option **)

let spec_tokens b =
  match g_tokens (S (length b)) (skip_ws b) Z0 Z0 false with
  | Some p ->
    let (ts, r) = p in (match skip_ws r with
                        | [] -> Some ts
                        | _ :: _ -> None)
  | None -> None

(** val frame : nat -> bytes -> bytes list * bool **)

let rec frame fuel b =
  match fuel with
  | O -> ([], false)
  | S f ->
    (match skip_ws b with
     | [] -> ([], true)
     | z0 :: l ->
       let b' = z0 :: l in
       (match g_value (S (length b')) b' with
        | Some r -> let (vs, ok) = frame f r in (((consumed b' r) :: vs), ok)
        | None -> ([], false)))
