(* C07, second half: fields whose numbers the target type does not declare are skipped.
   Inserting a complete, well-formed field with an undeclared number at a field boundary of a message does not
   change what proto.Unmarshal (Proto/Model.v) returns: the same value, or an error in both cases.
   Definitions and statements only; proofs in Proto/UnknownProofs.v.

   The wire-level vocabulary below is independent of the struct decoder: a field is a tag varint followed by a
   payload fixed by the wire type. A varint is any byte string the varint reader of the package
   (Generated/ProtoGen.v, machine translated; tied to canonical LEB128 in Proto/PrimProofs.v) reads completely,
   so padded varints are included. *)
From Verif Require Import Base.GoInt Proto.Ext Generated.ProtoGen Proto.Model Proto.PrimSpec Proto.Spec.
Open Scope Z_scope.

(* ---------- complete fields on the wire ---------- *)
(* s is one complete varint (minimal or padded) holding x *)
Definition varint_of (s : bytes) (x : Z) : Prop := proto_decodeVarint s = (x, len s, None).

(* the complete payload of a field, by wire type: varint, fixed64, fixed32, length-delimited *)
Inductive payload_of : Z -> bytes -> Prop :=
| P_varint p x : varint_of p x -> payload_of proto_varint p
| P_fixed64 p : len p = 8 -> payload_of proto_fixed64 p
| P_fixed32 p : len p = 4 -> payload_of proto_fixed32 p
| P_varlen lp s : varint_of lp (len s) -> payload_of proto_varlen (lp ++ s).

(* u is exactly one field: the tag number*8+wiretype as a varint, then the payload *)
Definition is_field (num wt : Z) (u : bytes) : Prop :=
  exists tg p, u = tg ++ p /\ 0 <= num /\ varint_of tg (num * 8 + wt) /\ payload_of wt p.

(* b is a sequence of complete fields (a field boundary of b ++ rest, whatever the rest) *)
Inductive fields_seq : bytes -> Prop :=
| FS_nil : fields_seq []
| FS_cons num wt u r : is_field num wt u -> fields_seq r -> fields_seq (u ++ r).

(* ---------- the numbers a struct type declares ---------- *)
(* the compiled fields of a struct type (struct.go structCodecOf: the field number is the one of the struct tag,
   or the 1-based position among exported fields, truncated to 16 bits as the package stores it) *)
Definition compiled (t : gty) : list sfield := match codec_of t with CStruct _ fs => fs | _ => [] end.
Definition declared (t : gty) : list Z := map sf_number (compiled t).

(* ---------- (1) insertion at top level, at the level of the struct decoder ---------- *)
(* For every struct type of the universe, any prior value of the target and any flags: decoding b1 ++ u ++ b2 and
   decoding b1 ++ b2 return the same error (or none) and the same value (on error: the same partially updated
   target); without error both consume their whole input. u may be inserted at every field boundary: before the
   first field (b1 empty), between fields, after the last (b2 empty); b2 is ARBITRARY (it may be malformed), and so
   are the fields of b1 (known with matching or mismatching wire type, unknown, with payloads that fail to decode).
   The number of u is any number not declared (0 and numbers above 2^16 included). *)
Definition unknown_insert_decode_statement : Prop :=
  forall gfs b1 b2 u num wt old flags fuel,
    let t := TStruct gfs in
    type_ok t = true -> wfb (b1 ++ u ++ b2) = true -> len (b1 ++ u ++ b2) < lim ->
    fields_seq b1 -> is_field num wt u -> ~ In num (declared t) ->
    (length (b1 ++ u ++ b2) + depth_ty t + 1 <= fuel)%nat ->
    exists n n' e v,
      decode fuel (codec_of t) (b1 ++ b2) old flags = Ok (n, e, v) /\
      decode fuel (codec_of t) (b1 ++ u ++ b2) old flags = Ok (n', e, v) /\
      (e = None -> n = len (b1 ++ b2) /\ n' = len (b1 ++ u ++ b2)).

(* through Unmarshal: the same result (the same value, or an error in both cases), for every prior value of the
   target -- provided the message is not empty or the target is zero (see the refuted form below) *)
Definition unknown_insert_statement : Prop :=
  forall gfs b1 b2 u num wt old fuel,
    let t := TStruct gfs in
    type_ok t = true -> wfb (b1 ++ u ++ b2) = true -> len (b1 ++ u ++ b2) < lim ->
    fields_seq b1 -> is_field num wt u -> ~ In num (declared t) ->
    (length (b1 ++ u ++ b2) + depth_ty t + 2 <= fuel)%nat ->
    b1 ++ b2 <> [] \/ old = zero_val t ->
    exists r, Unmarshal fuel t (b1 ++ b2) old = Ok r /\ Unmarshal fuel t (b1 ++ u ++ b2) old = Ok r.

(* the form without the last hypothesis is FALSE of the model (and of the Go code): Unmarshal of an empty input
   resets the target to its zero value, Unmarshal of an input made of unknown fields only leaves a non-zero target
   as it was (every non-empty input is merged into the target) *)
Definition unknown_insert_any_target_statement : Prop :=
  forall gfs b1 b2 u num wt old fuel,
    let t := TStruct gfs in
    type_ok t = true -> wfb (b1 ++ u ++ b2) = true -> len (b1 ++ u ++ b2) < lim ->
    fields_seq b1 -> is_field num wt u -> ~ In num (declared t) ->
    (length (b1 ++ u ++ b2) + depth_ty t + 2 <= fuel)%nat ->
    exists r, Unmarshal fuel t (b1 ++ b2) old = Ok r /\ Unmarshal fuel t (b1 ++ u ++ b2) old = Ok r.

(* ---------- (2) insertion inside embedded messages ---------- *)
(* the message type carried by the length-delimited payload of a field of Go type ft: a struct behind any number of
   pointers, the element of a slice of those, the entry message (key = 1, value = 2) of a map *)
Definition entry_ty (kt vt : gty) : gty := TStruct [GField true None kt; GField true None vt].
Definition struct_of (t : gty) : option gty := match base_ty t with TStruct g => Some (TStruct g) | _ => None end.
Definition sub_message (ft : gty) : option gty :=
  match ft with
  | TSlice et => struct_of et
  | TMap kt vt => Some (entry_ty kt vt)
  | _ => struct_of ft
  end.
Definition is_map (ft : gty) : bool := match ft with TMap _ _ => true | _ => false end.

(* [widened t b b']: b' is b with one unknown field inserted at a field boundary of the message itself, or of a
   message embedded at any depth, the length prefix of every enclosing field re-encoded (minimal or padded).
   The payload of a map entry must not be empty (see the refuted form below). *)
Inductive widened : gty -> bytes -> bytes -> Prop :=
| W_here gfs b1 b2 u num wt :
    fields_seq b1 -> is_field num wt u -> ~ In num (declared (TStruct gfs)) ->
    widened (TStruct gfs) (b1 ++ b2) (b1 ++ u ++ b2)
| W_inside gfs b1 b2 tg lp lp' p p' f sub :
    fields_seq b1 -> In f (compiled (TStruct gfs)) -> sub_message (sf_ty f) = Some sub ->
    varint_of tg (sf_number f * 8 + proto_varlen) -> varint_of lp (len p) -> varint_of lp' (len p') ->
    (is_map (sf_ty f) = true -> p <> []) ->
    widened sub p p' ->
    widened (TStruct gfs) (b1 ++ tg ++ lp ++ p ++ b2) (b1 ++ tg ++ lp' ++ p' ++ b2).

(* the same relation without the restriction on map entries *)
Inductive widened_any : gty -> bytes -> bytes -> Prop :=
| WA_here gfs b1 b2 u num wt :
    fields_seq b1 -> is_field num wt u -> ~ In num (declared (TStruct gfs)) ->
    widened_any (TStruct gfs) (b1 ++ b2) (b1 ++ u ++ b2)
| WA_inside gfs b1 b2 tg lp lp' p p' f sub :
    fields_seq b1 -> In f (compiled (TStruct gfs)) -> sub_message (sf_ty f) = Some sub ->
    varint_of tg (sf_number f * 8 + proto_varlen) -> varint_of lp (len p) -> varint_of lp' (len p') ->
    widened_any sub p p' ->
    widened_any (TStruct gfs) (b1 ++ tg ++ lp ++ p ++ b2) (b1 ++ tg ++ lp' ++ p' ++ b2).

(* decoder level, any prior value and flags: the same error class or none; without error the same value and both
   inputs consumed entirely (with an error inside an embedded message the partially updated targets are not compared).
   Both byte strings are bounded: a padded length prefix may make b longer than b'. *)
Definition unknown_nested_decode_statement : Prop :=
  forall t b b' old flags fuel,
    type_ok t = true -> numbers_ok (codec_of t) = true -> widened t b b' ->
    wfb b = true -> wfb b' = true -> len b < lim -> len b' < lim ->
    (length b + depth_ty t + 1 <= fuel)%nat -> (length b' + depth_ty t + 1 <= fuel)%nat ->
    exists n n' e v v',
      decode fuel (codec_of t) b old flags = Ok (n, e, v) /\
      decode fuel (codec_of t) b' old flags = Ok (n', e, v') /\
      (e = None -> v = v' /\ n = len b /\ n' = len b').

Definition unknown_nested_statement : Prop :=
  forall t b b' old fuel,
    type_ok t = true -> numbers_ok (codec_of t) = true -> widened t b b' ->
    wfb b = true -> wfb b' = true -> len b < lim -> len b' < lim ->
    (length b + depth_ty t + 2 <= fuel)%nat -> (length b' + depth_ty t + 2 <= fuel)%nat ->
    b <> [] \/ old = zero_val t ->
    exists r, Unmarshal fuel t b old = Ok r /\ Unmarshal fuel t b' old = Ok r.

(* FALSE without the restriction: the package ignores a map entry whose payload is empty (it writes an empty map as
   one such entry), but an entry holding only an unknown field is read as the entry (zero key, zero value) *)
Definition unknown_nested_any_statement : Prop :=
  forall t b b' fuel,
    type_ok t = true -> numbers_ok (codec_of t) = true -> widened_any t b b' ->
    wfb b = true -> wfb b' = true -> len b < lim -> len b' < lim ->
    (length b + depth_ty t + 2 <= fuel)%nat -> (length b' + depth_ty t + 2 <= fuel)%nat ->
    exists r, Unmarshal fuel t b (zero_val t) = Ok r /\ Unmarshal fuel t b' (zero_val t) = Ok r.

(* any number of insertions, one after the other, anywhere: every intermediate byte string within the bounds *)
Definition okb (fuel : nat) (t : gty) (b : bytes) : Prop :=
  wfb b = true /\ len b < lim /\ (length b + depth_ty t + 2 <= fuel)%nat.
Inductive widened_many (fuel : nat) (t : gty) : bytes -> bytes -> Prop :=
| WM_refl b : widened_many fuel t b b
| WM_step b b' b'' : widened_many fuel t b b' -> widened t b' b'' -> okb fuel t b'' -> widened_many fuel t b b''.
Definition unknown_nested_many_statement : Prop :=
  forall t b b' old fuel,
    type_ok t = true -> numbers_ok (codec_of t) = true -> okb fuel t b -> widened_many fuel t b b' ->
    b <> [] \/ old = zero_val t ->
    exists r, Unmarshal fuel t b old = Ok r /\ Unmarshal fuel t b' old = Ok r.

(* the vocabulary is not vacuous: canonical encodings are fields *)
Definition canonical_fields_statement : Prop :=
  (forall x, 0 <= x < 2 ^ 64 -> varint_of (varint x) x) /\
  (forall num wt p, 0 <= num < 2 ^ 61 -> payload_of wt p -> is_field num wt (varint (num * 8 + wt) ++ p)) /\
  (forall x, 0 <= x < 2 ^ 64 -> payload_of proto_varint (varint x)) /\
  (forall s, len s < 2 ^ 64 -> payload_of proto_varlen (varint (len s) ++ s)).

(* ---------- the field scanner agrees on what a field boundary is ---------- *)
(* proto.Scan (model: Proto/ScanModel.v over Parse of Proto/RewriteModel.v) walks a byte string to its end without
   error exactly when it is a sequence of complete fields: every point at which Scan stands between two callbacks is
   a field boundary for the theorems above, and every field boundary is such a point *)
From Verif Require Proto.RewriteModel Proto.ScanModel.
Definition scan_boundary_statement : Prop :=
  forall b l, wfb b = true -> len b < 2 ^ 62 -> ScanModel.Scan b = RewriteModel.ROk l -> fields_seq b.
Definition scan_accepts_fields_statement : Prop :=
  forall b, wfb b = true -> len b < 2 ^ 62 -> fields_seq b -> exists l, ScanModel.Scan b = RewriteModel.ROk l.
