From Verif Require Import Base.GoInt Proto.Ext Generated.ProtoGen Proto.RewriteModel Proto.RewriteSpec Proto.RewriteWire Proto.ScanModel.
From Coq Require Import Lia.

Lemma scan_ok : forall fuel b, wfb b = true -> len b < 2 ^ 62 -> (length b <= fuel)%nat ->
  match scan fuel b with ROk _ | RErr _ => True | RPanic | RFuel => False end.
Proof.
  induction fuel as [|f IH]; intros b Hwf Hlen Hfuel.
  - destruct b as [|x r]; [exact I | cbn [length] in Hfuel; lia].
  - destruct b as [|x r] eqn:Eb; [exact I|]. rewrite <- Eb in *. cbn [scan].
    assert (Hne : b <> []) by (rewrite Eb; discriminate).
    destruct b as [|y s] eqn:Eb2; [congruence|]. rewrite <- Eb2 in *.
    replace (scan (S f) b) with
      (match Parse b with
       | ROk (fn, t, v, m) =>
           match scan f m with ROk l => ROk ((fn, t, v) :: l) | RErr e => RErr e | RPanic => RPanic | RFuel => RFuel end
       | RErr e => RErr e | RPanic => RPanic | RFuel => RFuel end)
      by (rewrite Eb2; reflexivity).
    pose proof (RewriteWire.Parse_total b Hwf Hlen) as HP.
    destruct (Parse b) as [[[[fn t] v] m]|e| |]; try exact I; try contradiction.
    destruct HP as (_ & Hwm & Hlt).
    assert (Hm : len m < 2 ^ 62) by (unfold len in *; lia).
    specialize (IH m Hwm Hm ltac:(lia)).
    destruct (scan f m); try exact I; contradiction.
Qed.

Lemma scan_total : scan_total_statement.
Proof. intros b Hwf Hlen. unfold Scan. apply scan_ok; [assumption | assumption | lia]. Qed.
