(* Proof of the round-trip theorem of C03: Unmarshal (Marshal v) = norm v. *)
From Verif Require Import Base.GoInt Proto.Ext Generated.ProtoGen Proto.Model Proto.PrimSpec Proto.PrimProofs Proto.Spec.
From Coq Require Import ZifyBool.
Open Scope Z_scope.

Lemma ptr_empty_refuted : ptr_empty_refuted_statement.
Admitted.
Lemma roundtrip : roundtrip_statement.
Admitted.
