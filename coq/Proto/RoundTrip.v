(* Proof of the round-trip theorem of C03: Unmarshal (Marshal v) = norm v. *)
From Verif Require Import Base.GoInt Proto.Ext Generated.ProtoGen Proto.Model Proto.PrimSpec Proto.PrimProofs Proto.Spec.
From Coq Require Import ZifyBool.
Open Scope Z_scope.

(* F17: a non-nil pointer to a message whose encoding is empty comes back as nil *)
Lemma ptr_empty_refuted : ptr_empty_refuted_statement.
Proof.
  exists (TStruct [GField true None (TPtr (TStruct []))]),
         (VStruct [VPtr (Some (VStruct []))]), [].
  split; [|split].
  - unfold in_universe. repeat split; try reflexivity; vm_compute; congruence.
  - vm_compute. reflexivity.
  - intros fuel. unfold Unmarshal. cbn. discriminate.
Qed.

(* STATEMENT FALSE: three classes of counterexamples, each confirmed by vm_compute on the model
   (in_universe, representable, keys_distinct all hold):
   (1) nil-versus-empty (flaw of the statement's [norm], not of the code):
       t = TStruct [GField true None TInt; GField true None TBytes], v = VStruct [VInt 5; VBytes false []]:
       Marshal = [8;5]; Unmarshal = VStruct [VInt 5; VBytes false []] <> norm v = VStruct [VInt 5; VBytes true []].
       Also t = TRawMessage, v = VRaw false []: Marshal = [], Unmarshal = zero_val = VRaw false [] <> VRaw true [].
   (2) a [rep] struct tag on a field that is neither a slice nor a map (fails even up to norm):
       t = TStruct [GField true (Some {| tag_wire := 0; tag_number := 1; tag_repeated := true; tag_zigzag := false |}) TInt],
       v = VStruct [VInt 5]: Marshal = [5] (the repeated pass writes no tag), Unmarshal = Ok None (an error).
   (3) top-level pointer to an empty RawMessage (fails even up to norm; F17-like, not covered by [representable]):
       t = TPtr TRawMessage, v = VPtr (Some (VRaw true [])): Marshal = [], Unmarshal = zero_val = VPtr None. *)
Lemma roundtrip : roundtrip_statement.
Admitted.
